#!/bin/bash
# reverify_seed.sh <name> : re-runs verify_seed.py and the quick check for a stored seed (after porting its patch)
n=$1; d=/verif/seeded/$n; id=${n%%-*}
v=$(python3 /verif/tools/verify_seed.py $d) || exit 1
ok=$(echo "$v" | python3 -c "import json,sys; d=json.load(sys.stdin); print(int(bool(d.get('demo_passes_without_patch') and d.get('patch_applies') and d.get('demo_fails_with_patch') and d.get('builds_and_suite_passes_with_patch'))))")
det=$(SHOW=1 /verif/tools/try_seed.sh $id $d/patch.diff 2>&1)
echo "$det" | grep -A2 "RESULT\|VIOLATION" | head -8 > $d/check_output.txt
echo "$n confirmed=$ok :: $(echo "$det" | grep RESULT)"
[ "$ok" = "1" ] || echo "$v" | head -12
