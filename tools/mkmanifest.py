#!/usr/bin/env python3
"""Regenerates /verif/MANIFEST.json from the claims table below (kept in one place so that
MANIFEST.json stays valid while checks are added)."""
import json, os
ROOT = os.path.dirname(os.path.dirname(os.path.abspath(__file__)))
props = [json.loads(l) for l in open(os.path.join(ROOT, 'properties.jsonl'))]

E1 = "exhaustive bounded enumeration of an input alphabet product against a reference model"
claims = {
 "C03": dict(cat="exploration", ref="4.3", tech=E1 + " (reference MTProto 1.0 peer)",
   text="Every combination (<=2 deviations) of 4 auth keys, 6 salts, 6 session ids, 4 msg_ids, 5 seq_nos and the ack bit crossed fully with every body length 0..80 (thorough 0..1040 and 65520..65536), in both directions, is sealed by the client and opened by an independent MTProto 1.0 implementation (and vice versa) with field-exact comparison; the same through the real transport + intermediate framing over an injected connection; unencrypted messages for every length. Exhaustive inside the bound: the envelope is a pure function of these fields and the branch-relevant dimension is the length residue mod 16, which is covered completely.",
   note="Trusted: reference R2 (harness/ref/mtp1: IGE from the definition on crypto/aes, SHA-1 KDF with x=0/8). Values outside the alphabets are not explored."),
 "C04": dict(cat="fault_enumeration", ref="4.4", tech="exhaustive single-fault enumeration (every bit flip, every truncation, every declared length in the stated set) around reference-sealed packets",
   text="For 14 (thorough 36) reference-sealed server packets: every single-bit flip of every byte, every truncation length, garbage ciphertext blocks, re-keying, attacker-with-key re-seals with every declared length in {-2^31,-1,2^31-1} u {len-33..len+33} and both msg_key choices, every msg_id parity, through messages.DeserializeEncrypted and through transport.ReadMsg; structural faults of unencrypted packets. Oracle: error, or exactly the sealed message; never a panic. Complete for the stated fault menu.",
   note="Trusted: reference R2 sealing; the oracle compares fields and does not rely on SHA-1 collision resistance. Multi-bit corruptions other than the listed classes are not enumerated."),
 "C05": dict(cat="exploration", ref="4.5", tech=E1 + " (IGE computed from its definition)",
   text="3 keys x 3 IVs x every block count 1..8 (thorough 1..64) x 4 plaintext patterns against IGE computed from its definition; inversion; caller-buffer immutability incl. a reused Cipher; refusal of every length 0..64 that is not a positive multiple of 16; message-level wrapper for every length 1..80 (thorough 1..1040) in both key-schedule directions; key-exchange wrapper for every payload length 0..64 (thorough 0..520) x leading-zero class {0,1,2} of each nonce x producer (client itself, reference peer with the legal padding and two fillers). Exhaustive in the bound; chaining errors at any block index up to the bound are visible because of the repeated-block patterns.",
   note="Trusted: reference R2; crypto/aes. Package-internal functions are reached through an overlay-added export file."),
 "C20": dict(cat="exploration", ref="4.20", tech=E1 + "; owned map-iteration choice point",
   text="Full product of a structured link alphabet (7 schemes x 11 hosts x 4 ports x all paths of 0..2 (thorough 0..3) segments over a 10-15 symbol alphabet x trailing slash x 4 tails, ~2.7e5 quick / ~3.6e7 thorough links), each resolved under both iteration orders of the template table; totality on every link and exact agreement with a reference resolver written from the statement on the sub-product where the statement determines the answer. Exhaustive inside that bound; the resolver is a pure function of one string so bounded enumeration of the branch-relevant alphabet is the right level.",
   note="Trusted: reference resolver R7 (in the check); net/url is exercised but not explored; map order is owned via the syntactic rewrite of range-over-map-literal."),
}
try:
    exec(open(os.path.join(ROOT, 'tools', 'claims_more.py')).read())
except FileNotFoundError:
    pass

checks = []
for pid in sorted(claims):
    c = claims[pid]
    ent = {"property_id": pid, "quick_cmd": f"./check {pid} --tier quick", "thorough_cmd": f"./check {pid} --tier thorough",
           "evidence_file": f"/verif/evidence/{pid}.json", "replay_cmd_template": f"./check {pid} --replay {{path}}",
           "engine": "harness",
           "level_claimed": {"category": c["cat"], "text": c["text"], "design_ref": "DESIGN.md §" + c["ref"]},
           "level_note": c["note"], "technique": c["tech"]}
    checks.append(ent)
na_reasons = globals().get('na_reasons', {})
na = [{"property_id": p["id"], "reason": na_reasons.get(p["id"], "check not built yet in this snapshot (planned in DESIGN.md); not claimed until it exists")}
      for p in props if p["id"] not in claims]
m = {"version": 1, "setup_cmd": "./setup.sh",
     "hooks": {"guard": "verif-overlay (no build tag and no hook commit in /repo: instrumentation exists only as a `go build -overlay` produced by /verif/harness/instrument)",
               "enable": "./check <ID> runs harness/instrument, which writes rewritten copies of repository sources (sync -> vsync, time.Now -> vclock, math/rand + dry.RandomBytes -> vrand, channel operations/go statements/selects bracketed by scheduler hooks, owned map order) and adds export files from harness/_overlay, then builds the check with `go build -overlay` (and, for checks with a separate free-running pass, harness/checks/racepass with `-race` and the same overlay); /repo is never modified",
               "baseline_off_cmd": "./baseline.sh", "source_commits": [], "add_only": True},
     "engines": [{"name": "harness", "path": "/verif/harness", "serves_properties": sorted(claims),
                  "kind_free_text": "hand-written Go explorer: deviation-bounded product enumerator (E1), cooperative scheduler + DFS over schedules with preemption bounding (E2), explicit-state search over histories (E3), in-process reference servers with fault injection (E4); separate free-running pass under the Go race detector (harness/freepass, harness/checks/racepass); reference models R1-R7 under harness/ref"}],
     "checks": checks, "not_applicable": na,
     "notes": "See DESIGN.md. known_findings.jsonl lists recorded defects (status known) and repaired ones (status fixed; they suppress nothing). Exit 2 from a check means harness error, never a verdict."}
json.dump(m, open(os.path.join(ROOT, 'MANIFEST.json'), 'w'), indent=1)
print("claimed:", sorted(claims), "not_applicable:", [x["property_id"] for x in na])
