#!/bin/bash
# keep_seed6.sh <ID> <mk> : like keep_seed.sh for round-6 seeds living in /tmp/seed6/<ID>/<mk>, stored as <ID>-r6<mk>
ID=$1; K=$2
mkdir -p /tmp/seed/$ID/r6$K && rm -rf /tmp/seed/$ID/r6$K/* && cp -r /tmp/seed6/$ID/$K/* /tmp/seed/$ID/r6$K/
/verif/tools/keep_seed.sh $ID r6$K
