#!/bin/bash
# keep_seed3.sh <ID> <mk> : like keep_seed.sh for round-3 seeds living in /tmp/seed3/<ID>/<mk>, stored as <ID>-r3<mk>
ID=$1; K=$2
mkdir -p /tmp/seed/$ID/r3$K && rm -rf /tmp/seed/$ID/r3$K/* && cp -r /tmp/seed3/$ID/$K/* /tmp/seed/$ID/r3$K/
/verif/tools/keep_seed.sh $ID r3$K
