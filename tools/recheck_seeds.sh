#!/bin/bash
# re-runs every kept seeded change against the current /repo HEAD and the current checks (quick tier),
# refreshes seeded/<name>/check_output.txt and prints one line per seed; P = parallel jobs (default 4)
cd /verif
P=${P:-4}
one() {
  d=$1; n=$(basename $d); id=${n%%-*}
  det=$(SHOW=1 tools/try_seed.sh $id $d/patch.diff 2>&1)
  echo "$det" | grep -A2 "RESULT\|VIOLATION" | head -8 > $d/check_output.txt
  echo "$n :: $(echo "$det" | grep RESULT)"
}
export -f one
ls -d seeded/*/ | xargs -P $P -I{} bash -c 'one {}'
