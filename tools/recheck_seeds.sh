#!/bin/bash
# re-runs every kept seeded change against the current /repo HEAD and the current checks (quick tier)
cd /verif
for d in seeded/*/; do
  n=$(basename $d); id=${n%%-*}
  r=$(SHOW=1 tools/try_seed.sh $id $d/patch.diff 2>&1 | grep RESULT)
  echo "$n :: $r"
done
