#!/usr/bin/env python3
"""Generates first-order syntactic mutants of the repository files the properties are anchored in.
usage: mutate.py <outdir> [max_per_file] [seed]
Each mutant is a unified diff <outdir>/<n>.diff plus one line in <outdir>/index.tsv: n, file, line, operator, checks.
The mutants are evaluated by tools/run_mutants.sh (build, repository test suite, then the mapped checks)."""
import os, re, subprocess, sys, random
REPO = '/repo'
out = sys.argv[1]; cap = int(sys.argv[2]) if len(sys.argv) > 2 else 12
SEED = int(sys.argv[3]) if len(sys.argv) > 3 else 7
FILES = {
 'mtproto.go': 'C10 C11 C16 C17 C06 C07 C09 C13', 'network.go': 'C10 C11 C16 C06 C09 C13', 'handshake.go': 'C06 C07 C11', 'errors.go': 'C17 C16',
 'mtproto_utils.go': 'C11 C12 C16 C06 C09', 'internal/encoding/tl/encoder.go': 'C01 C02', 'internal/encoding/tl/decoder.go': 'C01 C15',
 'internal/encoding/tl/cursor_w.go': 'C01 C02', 'internal/encoding/tl/cursor_r.go': 'C01 C15', 'internal/aes_ige/aes.go': 'C05 C03 C06',
 'internal/aes_ige/ige_cipher.go': 'C05 C03 C04', 'internal/mode/arbiged.go': 'C08', 'internal/mode/intermediate.go': 'C08', 'internal/mode/mode.go': 'C08',
 'internal/transport/transport.go': 'C08 C04 C03 C06 C16', 'internal/mtproto/messages/messages.go': 'C03 C04 C06 C16', 'internal/mtproto/objects/types.go': 'C01 C02 C09 C15',
 'internal/session/file.go': 'C12', 'telegram/deeplinks/resolver.go': 'C20', 'telegram/deeplinks/utils.go': 'C20', 'telegram/deeplinks/template.go': 'C20',
 'telegram/internal/srp/2fa.go': 'C18', 'internal/math/math.go': 'C06 C19', 'internal/utils/sync_stuff.go': 'C10 C11 C16 C09', 'internal/utils/utils.go': 'C10 C03',
 'internal/cmd/tlgen/tlparser/parser.go': 'C14', 'internal/cmd/tlgen/gen/tl_gen_structs.go': 'C14', 'internal/cmd/tlgen/gen/schema.go': 'C14',
 'internal/encoding/tl/common_types.go': 'C19 C01',
}
OPS = [
 ('rel', r'(?<![<>=!:+\-*/&|])<=(?!=)', '<'), ('rel', r'(?<![<>=!\-])<(?![<=\-])', '<='), ('rel', r'(?<![<>=!:+\-*/&|])>=(?!=)', '>'), ('rel', r'(?<![<>=!\-])>(?![>=])', '>='),
 ('eq', r'(?<![<>=!])==(?!=)', '!='), ('eq', r'!=', '=='), ('logic', r'&&', '||'), ('logic', r'\|\|', '&&'),
 ('arith', r'(?<=[\w\)\]]) \+ (?=[\w\(])', ' - '), ('arith', r'(?<=[\w\)\]]) - (?=[\w\(])', ' + '),
 ('const', r'(?<![\w.x])1(?![\w.])', '2'), ('const', r'(?<![\w.x])0(?![\w.x])', '1'), ('const', r'(?<![\w.x])4(?![\w.])', '5'), ('const', r'(?<![\w.x])8(?![\w.])', '7'), ('const', r'(?<![\w.x])16(?![\w.])', '15'),
 ('bool', r'\btrue\b', 'false'), ('bool', r'\bfalse\b', 'true'),
 ('lock', r'^\s*(defer )?\w[\w.]*\.(R?Lock|R?Unlock)\(\)\s*$', '__DELETE__'),
 ('return', r'^(\s*)return err$', r'\1return nil'),
 ('neg', r'if !(\w)', r'if \1'),
 ('slice', r'\[(\w*):(\w+)\]', r'[\1:\2-1]'), ('slice', r'\[(\w+):(\w*)\]', r'[\1+1:\2]'),
 ('incr', r'\+= 2\b', '+= 1'), ('incr', r'\+= 1\b', '+= 2'), ('incr', r'(\w)\+\+$', r'\1 += 2'),
 ('len', r'len\((\w+)\)(?! *[-+])', r'len(\1)-1'),
 ('cond', r'^(\s*)if (?!err )(.+) \{$', r'\1if true {'), ('cond', r'^(\s*)if (?!err )(.+) \{$', r'\1if false {'),
 ('stmt', r'^\s*\w[\w.]*\.(Delete|Add)\(.*\)\s*$', '__DELETE__'),
]
random.seed(SEED)
os.makedirs(out, exist_ok=True)
idx = open(os.path.join(out, 'index.tsv'), 'w')
n = 0
for f, checks in FILES.items():
    path = os.path.join(REPO, f)
    if not os.path.exists(path): continue
    lines = open(path).read().split('\n')
    cands = []
    infunc = False
    for i, l in enumerate(lines):
        st = l.strip()
        if st.startswith('//') or st.startswith('import') or st.startswith('package') or '//nolint' in st and False: continue
        if st.startswith('func '): infunc = True
        if not infunc or not st or st.startswith('"') : continue
        code = l.split('//')[0] if '//' in l and '"' not in l.split('//')[0][-1:] else l
        for op, pat, rep in OPS:
            for m in re.finditer(pat, code):
                if code[:m.start()].count('"') % 2 == 1 or code[:m.start()].count('`') % 2 == 1: continue  # inside a string literal
                if rep == '__DELETE__': new = None
                else: new = code[:m.start()] + m.expand(rep) + code[m.end():] + l[len(code):]
                cands.append((i, op, new))
    random.shuffle(cands)
    seen_lines = set(); kept = []
    for c in cands:
        if c[0] in seen_lines: continue
        seen_lines.add(c[0]); kept.append(c)
        if len(kept) >= cap: break
    for (i, op, new) in kept:
        mut = lines[:]
        if new is None: mut[i] = ''
        else: mut[i] = new
        tmp = '/tmp/mutate.tmp'
        open(tmp, 'w').write('\n'.join(mut))
        d = subprocess.run(['diff', '-u', '--label', 'a/' + f, '--label', 'b/' + f, path, tmp], stdout=subprocess.PIPE).stdout.decode()
        if not d: continue
        n += 1
        open(os.path.join(out, '%d.diff' % n), 'w').write(d)
        idx.write('%d\t%s\t%d\t%s\t%s\t%s\n' % (n, f, i + 1, op, checks, lines[i].strip()[:90].replace('\t', ' ')))
idx.close()
print('mutants:', n)
