#!/bin/bash
# keep_seed4.sh <ID> <mk> : like keep_seed.sh for round-4 seeds living in /tmp/seed4/<ID>/<mk>, stored as <ID>-r4<mk>
ID=$1; K=$2
mkdir -p /tmp/seed/$ID/r4$K && rm -rf /tmp/seed/$ID/r4$K/* && cp -r /tmp/seed4/$ID/$K/* /tmp/seed/$ID/r4$K/
/verif/tools/keep_seed.sh $ID r4$K
