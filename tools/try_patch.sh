#!/bin/bash
# usage: try_patch.sh <patch.diff> <ID> [<ID>...]   — applies a patch to /repo, runs the baseline suite and the
# named checks (quick), then restores /repo. Never commits anything in /repo.
P="$1"; shift
cd /repo || exit 2
git diff --quiet || { echo "/repo is dirty"; exit 2; }
git apply "$P" || { echo "patch does not apply"; exit 2; }
trap 'git -C /repo checkout -- . ; git -C /repo clean -fdq' EXIT
echo "== baseline"; /verif/baseline.sh 2>&1 | grep -v "no test files" | grep -v "^ok" ; echo "baseline rc=${PIPESTATUS[0]}"
for id in "$@"; do
  echo "== $id"; VERIF_NOEVIDENCE=1 /verif/check "$id" --tier "${TIER:-quick}" 2>&1 | grep -E "VIOLATION|KNOWN|HARNESS|^C[0-9]+ " | head -${LINES_MAX:-6}
done
