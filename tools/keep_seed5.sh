#!/bin/bash
# keep_seed5.sh <ID> <mk> : like keep_seed.sh for round-5 seeds living in /tmp/seed5/<ID>/<mk>, stored as <ID>-r5<mk>
ID=$1; K=$2
mkdir -p /tmp/seed/$ID/r5$K && rm -rf /tmp/seed/$ID/r5$K/* && cp -r /tmp/seed5/$ID/$K/* /tmp/seed/$ID/r5$K/
/verif/tools/keep_seed.sh $ID r5$K
