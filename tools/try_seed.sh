#!/bin/bash
# usage: try_seed.sh <ID> <patch.diff> [tier]  — evaluates a seeded change without touching /repo:
# a scratch worktree of /repo HEAD gets the patch, the baseline suite and the check run against it.
ID="$1"; P="$(readlink -f "$2")"; TIER="${3:-quick}"
WT=$(mktemp -d /tmp/seedwt.XXXXXX)
git -C /repo worktree add -q --detach "$WT" HEAD || exit 2
trap 'git -C /repo worktree remove --force "$WT" 2>/dev/null; rm -rf /verif/.build/alt-$(echo "$WT" | tr "/" "_")-*' EXIT
cd "$WT" && git apply "$P" || { echo "RESULT $ID $P patch-does-not-apply"; exit 2; }
export GOPROXY=off GOSUMDB=off GOTOOLCHAIN=local
base=ok
for m in . telegram/deeplinks internal/cmd/tlgen; do (cd "$WT/$m" && go build ./... >/dev/null 2>&1 && go test -vet=off -count=1 ./... >/dev/null 2>&1) || base=FAIL; done
out=$(VERIF_REPO="$WT" VERIF_NOEVIDENCE=1 /verif/check "$ID" --tier "$TIER" 2>&1); rc=$?
nv=$(echo "$out" | grep -c "^VIOLATION")
echo "RESULT $ID $(basename $(dirname $P)) baseline=$base check_rc=$rc violations=$nv"
echo "$out" | grep -A2 "^VIOLATION" | head -${SHOW:-6} | cut -c1-260
echo "$out" | grep "HARNESS" | head -3
