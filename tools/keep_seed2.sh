#!/bin/bash
# keep_seed2.sh <ID> <mk> : like keep_seed.sh for round-2 seeds living in /tmp/seed/r2<ID>/<mk>, stored as <ID>-r2<mk>
ID=$1; K=$2
mkdir -p /tmp/seed/$ID/r2$K && rm -rf /tmp/seed/$ID/r2$K/* && cp -r /tmp/seed/r2$ID/$K/* /tmp/seed/$ID/r2$K/
/verif/tools/keep_seed.sh $ID r2$K
