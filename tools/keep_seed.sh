#!/bin/bash
# keep_seed.sh <ID> <mk> : verify the agent's seeded change and, if confirmed, store it under /verif/seeded/<ID>-<mk>/
ID=$1; K=$2; SRC=/tmp/seed/$ID/$K; DST=/verif/seeded/$ID-$K
v=$(python3 /verif/tools/verify_seed.py $SRC) || exit 1
echo "$v" > /tmp/seed/$ID-$K.verify.json
ok=$(echo "$v" | python3 -c "import json,sys; d=json.load(sys.stdin); print(int(d.get('demo_passes_without_patch') and d.get('patch_applies') and d.get('demo_fails_with_patch') and d.get('builds_and_suite_passes_with_patch')))")
det=$(SHOW=1 /verif/tools/try_seed.sh $ID $SRC/patch.diff 2>&1)
echo "$ID $K confirmed=$ok :: $(echo "$det" | grep RESULT)"
[ "$ok" = "1" ] || exit 0
mkdir -p $DST && cp $SRC/patch.diff $DST/ && rm -rf $DST/demo && cp -r $SRC/demo $DST/demo
python3 - "$ID" "$K" "$SRC" "$DST" <<PY
import json,sys
ID,K,SRC,DST=sys.argv[1:5]
meta=json.load(open(SRC+'/meta.json'))
ver=json.load(open('/tmp/seed/%s-%s.verify.json'%(ID,K)))
det=open('/dev/stdin').read() if False else ''
meta['property']=ID
meta['origin']='independent sub-agent given only the property text and a scratch worktree'
meta['confirmed_by_me']={k:ver[k] for k in ('patch_applies','builds_and_suite_passes_with_patch','demo_passes_without_patch','demo_fails_with_patch')}
meta['demo_cmd']=ver['demo_cmd']; meta['demo_dir']=ver['demo_dir']
meta['ran']=['tools/verify_seed.py (scratch worktree: demo without/with patch, build + the three module test suites with patch)','tools/try_seed.sh %s patch.diff (quick tier of the check against a scratch worktree with the patch)'%ID]
json.dump(meta,open(DST+'/meta.json','w'),indent=1)
PY
echo "$det" | grep -A2 "RESULT\|VIOLATION" | head -8 > $DST/check_output.txt
