#!/bin/bash
# run_mutants.sh <dir> [P] : evaluates the mutants written by tools/mutate.py (one scratch worktree each):
#   build -> repository test suites (a mutant they kill is not interesting) -> the mapped checks (quick tier),
#   stopping at the first check that reports a violation. Result lines go to <dir>/results.tsv.
D=$1; P=${2:-5}
export GOFLAGS=-mod=mod GOPROXY=off GOSUMDB=off GOTOOLCHAIN=local
one() {
  line="$1"; D="$2"
  n=$(echo "$line" | cut -f1); f=$(echo "$line" | cut -f2); checks=$(echo "$line" | cut -f5)
  WT=$(mktemp -d /tmp/mutwt.XXXXXX)
  git -C /repo worktree add -q --detach "$WT" HEAD || { echo -e "$n\t$f\tworktree-failed"; return; }
  res=""
  if ! (cd "$WT" && git apply "$D/$n.diff" 2>/dev/null); then res="does-not-apply"; fi
  if [ -z "$res" ]; then
    for m in . telegram/deeplinks internal/cmd/tlgen; do (cd "$WT/$m" && go build ./... >/dev/null 2>&1) || res="does-not-compile"; done
  fi
  if [ -z "$res" ]; then
    for m in . telegram/deeplinks internal/cmd/tlgen; do (cd "$WT/$m" && timeout 300 go test -vet=off -count=1 ./... >/dev/null 2>&1) || res="killed-by-repo-tests"; done
  fi
  if [ -z "$res" ]; then
    res="SURVIVED"
    for c in $checks; do
      out=$(VERIF_REPO="$WT" VERIF_NOEVIDENCE=1 timeout 900 /verif/check $c --tier quick 2>&1); rc=$?
      if [ $rc -eq 1 ]; then res="killed-by-$c :: $(echo "$out" | grep -m1 'site=' | cut -c1-160)"; break; fi
      if [ $rc -ne 0 ]; then res="check-$c-rc$rc :: $(echo "$out" | grep -m1 'HARNESS' | cut -c1-120)"; break; fi
    done
  fi
  git -C /repo worktree remove --force "$WT" 2>/dev/null; rm -rf /verif/.build/alt-$(echo "$WT" | tr "/" "_")-*
  echo -e "$n\t$f\t$(echo "$line" | cut -f3,4)\t$res"
}
export -f one
cat "$D/index.tsv" | xargs -d '\n' -P "$P" -I{} bash -c 'one "$1" "$2"' _ {} "$D" | tee "$D/results.tsv"
