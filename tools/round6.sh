#!/bin/bash
# round6.sh <ID> : verify and keep both round-6 seeds of one property (output in /tmp/seed6/<ID>/keep.log), then drop the agent's worktree
ID=$1
for k in m1 m2; do
  [ -f /tmp/seed6/$ID/$k/patch.diff ] || { echo "$ID $k missing"; continue; }
  /verif/tools/keep_seed6.sh $ID $k
done > /tmp/seed6/$ID/keep.log 2>&1
git -C /repo worktree remove --force /tmp/s6wt/$ID 2>/dev/null
cat /tmp/seed6/$ID/keep.log
