#!/usr/bin/env python3
"""verify_seed.py <seed dir with patch.diff, demo/, meta.json> [base-commit]
Confirms in a scratch worktree of /repo: the patch applies and builds, the repository's own suites pass with it,
the demonstration passes without the patch and fails with it. Prints a JSON verdict."""
import sys, os, re, json, subprocess, tempfile, shutil
seed = os.path.abspath(sys.argv[1]); base = sys.argv[2] if len(sys.argv) > 2 else 'HEAD'
env = dict(os.environ, GOPROXY='off', GOSUMDB='off', GOTOOLCHAIN='local', GOFLAGS='-mod=mod')
def sh(cmd, cwd, timeout=900):
    p = subprocess.run(cmd, shell=True, cwd=cwd, env=env, stdout=subprocess.PIPE, stderr=subprocess.STDOUT, timeout=timeout)
    return p.returncode, p.stdout.decode(errors='replace')
wt = tempfile.mkdtemp(prefix='seedverify.')
subprocess.check_call(['git', '-C', '/repo', 'worktree', 'add', '-q', '--detach', wt, base])
res = {}
try:
    readme = open(os.path.join(seed, 'demo', 'README.txt')).read()
    files = [f for f in os.listdir(os.path.join(seed, 'demo')) if f.endswith('.go')]
    m = re.search(r'<repo[^>]*>/([A-Za-z0-9_/\.]*)', readme)
    sub = os.path.dirname(m.group(1)) if m and '/' in m.group(1) else ''
    if 'deeplinks' in readme: sub = 'telegram/deeplinks'
    cmdline = [l.strip()[l.strip().index('go test'):] for l in readme.splitlines() if 'go test' in l and ('-run' in l or './' in l)] or [l.strip() for l in readme.splitlines() if l.strip().startswith('go run')]
    cmd = cmdline[0] if cmdline else 'go test -vet=off -count=1 ./...'
    mm = re.search(r'\s(\./[A-Za-z0-9_/]+?)/?(\s|$)', cmd)
    if mm and not sub and mm.group(1) not in ('./...',):
        sub = mm.group(1)[2:]
    rundir = wt
    if sub == 'telegram/deeplinks': rundir = os.path.join(wt, sub)
    if 'internal/cmd/tlgen' in readme:
        rundir = os.path.join(wt, 'internal/cmd/tlgen')
        m2 = re.search(r'\./(gen|tlparser)', cmd)
        sub = 'internal/cmd/tlgen/' + (m2.group(1) if m2 else 'gen')
    if re.search(r'\s\.$', cmd) and sub and rundir == wt and sub != 'telegram/deeplinks':
        rundir = os.path.join(wt, sub)  # 'go test ... .' meant to be run inside the package directory
    tree = 'cp -r demo/.' in readme
    if tree:
        sub, rundir = '', wt
        subprocess.check_call('cp -r %s/. %s/ && rm -f %s/README.txt' % (os.path.join(seed, 'demo'), wt, wt), shell=True)
    else:
        for f in files: shutil.copy(os.path.join(seed, 'demo', f), os.path.join(wt, sub, f))
    rc0, out0 = sh(cmd + ' 2>&1', rundir)
    res['demo_passes_without_patch'] = rc0 == 0
    rc, out = sh('git apply ' + os.path.join(seed, 'patch.diff'), wt)
    res['patch_applies'] = rc == 0
    if rc == 0:
        rc1, out1 = sh(cmd + ' 2>&1', rundir)
        res['demo_fails_with_patch'] = rc1 != 0
        res['demo_tail_with_patch'] = out1[-600:]
        if tree:
            sh('git clean -fdq', wt)
        else:
            for f in files: os.remove(os.path.join(wt, sub, f))
        ok = True
        for m_ in ['.', 'telegram/deeplinks', 'internal/cmd/tlgen']:
            rcb, outb = sh('go build ./... && go test -vet=off -count=1 ./...', os.path.join(wt, m_))
            ok = ok and rcb == 0
        res['builds_and_suite_passes_with_patch'] = ok
    res['demo_cmd'] = cmd; res['demo_dir'] = sub or '.'
finally:
    subprocess.call(['git', '-C', '/repo', 'worktree', 'remove', '--force', wt])
print(json.dumps(res, indent=1))
