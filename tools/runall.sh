#!/bin/bash
# runs every claimed check (quick by default) and prints one line each
TIER=${1:-quick}
cd "$(dirname "$(readlink -f "$0")")/.." || exit 2
for id in $(python3 -c "import json; print(' '.join(c['property_id'] for c in json.load(open('MANIFEST.json'))['checks']))"); do
  s=$(date +%s); out=$(./check $id --tier $TIER 2>&1); rc=$?; e=$(date +%s)
  echo "$id rc=$rc $((e-s))s :: $(echo "$out" | tail -1)"
done
