#!/bin/bash
# Offline setup: warm the Go build cache for the harness against /repo's current tree.
set -u
ROOT="$(cd "$(dirname "$(readlink -f "$0")")" && pwd)"
export GOFLAGS=-mod=mod GOPROXY=off GOSUMDB=off GOTOOLCHAIN=local
cd "$ROOT/harness" || exit 1
mkdir -p "$ROOT/.build/setup" "$ROOT/evidence" "$ROOT/replay"
go build -o "$ROOT/.build/setup/instrument" ./instrument || exit 1
"$ROOT/.build/setup/instrument" -repo /repo -out "$ROOT/.build/setup/ov" -added "$ROOT/harness/_overlay" || exit 1
for d in checks/*/; do
  go build -overlay "$ROOT/.build/setup/ov/overlay.json" -o /dev/null "./$d" || exit 1
done
# the separate free-running pass is built with the race detector
go build -race -overlay "$ROOT/.build/setup/ov/overlay.json" -o /dev/null ./checks/racepass || exit 1
echo setup ok
