package main

import (
	"fmt"
	"os"

	"github.com/xelaj/mtproto/zverif/ref/tlschema"
)

func main() {
	for _, f := range os.Args[1:] {
		b, _ := os.ReadFile(f)
		sc, err := tlschema.Parse(string(b))
		if err != nil {
			fmt.Println(f, "ERR", err)
			continue
		}
		bad := 0
		for _, d := range sc.Defs {
			if d.HasID && tlschema.CanonicalCRC(d.Line) != d.ID {
				bad++
				fmt.Printf("  crc mismatch %s: written %08x computed %08x\n", d.Name, d.ID, tlschema.CanonicalCRC(d.Line))
			}
		}
		fmt.Println(f, "defs", len(sc.Defs), "crc mismatches", bad)
	}
}
