// Package vrand replaces "math/rand" in rewritten repository files and the
// go-dry RandomBytes call sites. By default everything delegates to the real
// generators; a check that owns randomness installs a deterministic stream.
package vrand

import (
	"crypto/sha256"
	"encoding/binary"
	mrand "math/rand"
	"sync"

	dry "github.com/xelaj/go-dry"
)

type (
	Rand   = mrand.Rand
	Source = mrand.Source
	Zipf   = mrand.Zipf
)

var (
	mu     sync.Mutex
	owned  bool
	seed   uint64
	ctr    uint64
	Draws  []Draw // log of draws while owned
	forced map[string][][]byte
)

type Draw struct {
	Site string
	N    int
}

// Own installs a deterministic stream: every draw is SHA-256(seed, counter).
func Own(s uint64) { mu.Lock(); owned, seed, ctr, Draws, forced = true, s, 0, nil, nil; mu.Unlock() }

// Force makes the next draws at the given site return the given values (in order).
func Force(site string, vals ...[]byte) {
	mu.Lock()
	if forced == nil {
		forced = map[string][][]byte{}
	}
	forced[site] = append(forced[site], vals...)
	mu.Unlock()
}

func Release() { mu.Lock(); owned = false; forced = nil; mu.Unlock() }

func Owned() bool { mu.Lock(); defer mu.Unlock(); return owned }

func stream(site string, n int) []byte {
	// caller holds mu
	Draws = append(Draws, Draw{site, n})
	// forced values are matched by length, whichever call site draws them (so that they keep working when
	// the repository moves a draw from one random source to another)
	if q := forced["bytes"]; len(q) > 0 && len(q[0]) == n && site != "source" {
		v := q[0]
		forced["bytes"] = q[1:]
		return append([]byte{}, v...)
	}
	out := make([]byte, 0, n+32)
	for len(out) < n {
		var b [16]byte
		binary.LittleEndian.PutUint64(b[:8], seed)
		binary.LittleEndian.PutUint64(b[8:], ctr)
		ctr++
		h := sha256.Sum256(b[:])
		out = append(out, h[:]...)
	}
	return out[:n]
}

// DryRandomBytes stands for dry.RandomBytes.
func DryRandomBytes(n int) []byte {
	mu.Lock()
	if owned {
		defer mu.Unlock()
		return stream("bytes", n)
	}
	mu.Unlock()
	return dry.RandomBytes(n)
}

type ownedSource struct{}

func (ownedSource) Int63() int64 {
	mu.Lock()
	defer mu.Unlock()
	b := stream("source", 8)
	return int64(binary.LittleEndian.Uint64(b) >> 1)
}
func (ownedSource) Uint64() uint64 {
	mu.Lock()
	defer mu.Unlock()
	return binary.LittleEndian.Uint64(stream("source", 8))
}
func (ownedSource) Seed(int64) {}

func NewSource(s int64) Source {
	mu.Lock()
	o := owned
	mu.Unlock()
	if o {
		return ownedSource{}
	}
	return mrand.NewSource(s)
}

func New(src Source) *Rand { return mrand.New(src) }

func Seed(s int64) {
	if Owned() {
		return
	}
	mrand.Seed(s)
}

func global() *Rand { return mrand.New(ownedSource{}) }

func Int63() int64 {
	if Owned() {
		return global().Int63()
	}
	return mrand.Int63()
}
func Int() int {
	if Owned() {
		return global().Int()
	}
	return mrand.Int()
}
func Intn(n int) int {
	if Owned() {
		return global().Intn(n)
	}
	return mrand.Intn(n)
}
func Int31() int32 {
	if Owned() {
		return global().Int31()
	}
	return mrand.Int31()
}
func Int31n(n int32) int32 {
	if Owned() {
		return global().Int31n(n)
	}
	return mrand.Int31n(n)
}
func Int63n(n int64) int64 {
	if Owned() {
		return global().Int63n(n)
	}
	return mrand.Int63n(n)
}
func Uint32() uint32 {
	if Owned() {
		return global().Uint32()
	}
	return mrand.Uint32()
}
func Uint64() uint64 {
	if Owned() {
		return global().Uint64()
	}
	return mrand.Uint64()
}
func Float64() float64 {
	if Owned() {
		return global().Float64()
	}
	return mrand.Float64()
}
func Perm(n int) []int {
	if Owned() {
		return global().Perm(n)
	}
	return mrand.Perm(n)
}
func Shuffle(n int, swap func(i, j int)) {
	if Owned() {
		global().Shuffle(n, swap)
		return
	}
	mrand.Shuffle(n, swap)
}
func Read(p []byte) (int, error) {
	mu.Lock()
	if owned {
		defer mu.Unlock()
		copy(p, stream("read", len(p)))
		return len(p), nil
	}
	mu.Unlock()
	return mrand.Read(p)
}

// DrawCount reports how many draws were served from the owned stream since Own.
func DrawCount() int { mu.Lock(); defer mu.Unlock(); return len(Draws) }
