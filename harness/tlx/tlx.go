// Package tlx holds what the TL checks (C01, C02, C13, C15) share: the registry
// view, the structure-aware value generator (shape alphabet of DESIGN §3), a
// normalising equality, and the schema-directed reference serialiser (R1).
package tlx

import (
	"fmt"
	"math"
	"math/big"
	"reflect"
	"sort"
	"strconv"
	"strings"

	"github.com/xelaj/mtproto/internal/encoding/tl"
	_ "github.com/xelaj/mtproto/internal/mtproto/objects"
	_ "github.com/xelaj/mtproto/telegram"
)

type Entry struct {
	CRC  uint32
	Type reflect.Type // *Struct for objects, named uint32 for enum members, other for hand-written
	Enum bool
}

type Registry struct {
	ByCRC   map[uint32]*Entry
	Entries []*Entry // sorted by type name then crc
	objT    reflect.Type
	impl    map[reflect.Type][]*Entry
	height  map[reflect.Type]int
}

var objectType = reflect.TypeOf((*tl.Object)(nil)).Elem()

func Load() *Registry {
	r := &Registry{ByCRC: map[uint32]*Entry{}, impl: map[reflect.Type][]*Entry{}, height: map[reflect.Type]int{}, objT: objectType}
	enums := tl.VerifEnums()
	for crc, t := range tl.VerifRegistry() {
		pt := t
		if pt.Kind() == reflect.Ptr {
			pt = pt.Elem()
		}
		if strings.Contains(pt.PkgPath(), "/zverif/") {
			continue // the harness's own test constructors
		}
		e := &Entry{CRC: crc, Type: t, Enum: enums[crc]}
		r.ByCRC[crc] = e
		r.Entries = append(r.Entries, e)
	}
	sort.Slice(r.Entries, func(i, j int) bool {
		a, b := r.Entries[i], r.Entries[j]
		if a.Type.String() != b.Type.String() {
			return a.Type.String() < b.Type.String()
		}
		return a.CRC < b.CRC
	})
	r.computeHeights()
	return r
}

func (e *Entry) Name() string {
	if e.Enum {
		return fmt.Sprintf("%s(%#x)", e.Type.String(), e.CRC)
	}
	return strings.TrimPrefix(e.Type.String(), "*")
}

// IsStruct: a registered pointer-to-struct object handled by the generic codec.
func (e *Entry) IsStruct() bool {
	return !e.Enum && e.Type.Kind() == reflect.Ptr && e.Type.Elem().Kind() == reflect.Struct
}

// Implementers of an interface type: registered struct pointers and enum types.
func (r *Registry) Implementers(it reflect.Type) []*Entry {
	if v, ok := r.impl[it]; ok {
		return v
	}
	var out []*Entry
	for _, e := range r.Entries {
		if e.Type.Implements(it) && !(e.Enum && it != objectType && e.Type.Kind() != reflect.Uint32) {
			out = append(out, e)
		}
	}
	r.impl[it] = out
	return out
}

// EnumMembers lists the registered ids of an enum Go type.
func (r *Registry) EnumMembers(t reflect.Type) []uint32 {
	var out []uint32
	for _, e := range r.Entries {
		if e.Enum && e.Type == t {
			out = append(out, e.CRC)
		}
	}
	return out
}

type Tag struct {
	Has      bool
	Bit      int
	InFlags  bool // encoded_in_bitflags
	Ignore   bool
	Optional bool
}

func ParseTag(f reflect.StructField) Tag {
	v, ok := f.Tag.Lookup("tl")
	if !ok {
		return Tag{}
	}
	t := Tag{Has: true}
	parts := strings.Split(v, ",")
	if parts[0] == "-" {
		t.Ignore = true
		return t
	}
	if strings.HasPrefix(parts[0], "flag:") {
		t.Bit, _ = strconv.Atoi(strings.TrimPrefix(parts[0], "flag:"))
		t.Optional = true
	} else {
		t.Has = false
	}
	for _, p := range parts[1:] {
		if p == "encoded_in_bitflags" {
			t.InFlags = true
		}
	}
	return t
}

// ---- heights (to terminate recursion: always able to build the shallowest value) ----

const inf = 1 << 20

func (r *Registry) fieldHeight(t reflect.Type) int {
	switch t.Kind() {
	case reflect.Ptr:
		if t.Elem().Kind() == reflect.Struct {
			if isBig(t) {
				return 0
			}
			if h, ok := r.height[t]; ok {
				return h
			}
			return inf
		}
		return 0
	case reflect.Interface:
		best := inf
		for _, e := range r.Implementers(t) {
			h := 0
			if !e.Enum {
				var ok bool
				if h, ok = r.height[e.Type]; !ok {
					h = inf
				}
			}
			if h < best {
				best = h
			}
		}
		return best
	case reflect.Slice:
		return 0 // may be empty
	}
	return 0
}

func isBig(t reflect.Type) bool {
	return t == reflect.TypeOf(&tl.Int128{}) || t == reflect.TypeOf(&tl.Int256{})
}

func (r *Registry) computeHeights() {
	for changed := true; changed; {
		changed = false
		for _, e := range r.Entries {
			if !e.IsStruct() {
				continue
			}
			st := e.Type.Elem()
			h := 0
			for i := 0; i < st.NumField(); i++ {
				f := st.Field(i)
				if tg := ParseTag(f); tg.Has && (tg.Optional || tg.Ignore) {
					continue
				}
				if fh := r.fieldHeight(f.Type); fh+1 > h {
					h = fh + 1
				}
			}
			if h >= inf {
				continue
			}
			if old, ok := r.height[e.Type]; !ok || h < old {
				r.height[e.Type] = h
				changed = true
			}
		}
	}
}

// ---- value generation ---------------------------------------------------------------

type Gen struct {
	R *Registry
}

func bigOf(t reflect.Type, b []byte) reflect.Value {
	if t == reflect.TypeOf(&tl.Int128{}) {
		return reflect.ValueOf(&tl.Int128{Int: new(big.Int).SetBytes(b)})
	}
	return reflect.ValueOf(&tl.Int256{Int: new(big.Int).SetBytes(b)})
}

func bytesPattern(n int) []byte {
	b := make([]byte, n)
	for i := range b {
		b[i] = byte(i*7 + 1)
	}
	return b
}

var StringLens = []int{1, 0, 2, 3, 4, 5, 252, 253, 254, 255, 256, 257, 65535, 65536}

// Alts returns the alternatives of a field type: index 0 is the base (simplest
// non-zero) value. budget limits nesting for object-valued fields.
func (g *Gen) Alts(t reflect.Type, budget int, substitute bool) []reflect.Value {
	mk := func(vals ...interface{}) []reflect.Value {
		out := make([]reflect.Value, len(vals))
		for i, v := range vals {
			out[i] = reflect.ValueOf(v).Convert(t)
		}
		return out
	}
	switch t.Kind() {
	case reflect.Int32:
		return mk(int32(1), int32(0), int32(-1), int32(math.MaxInt32), int32(math.MinInt32))
	case reflect.Int64:
		return mk(int64(1), int64(0), int64(-1), int64(math.MaxInt64), int64(math.MinInt64), int64(0x0102030405060708))
	case reflect.Float64:
		return mk(1.5, 0.0, math.Copysign(0, -1), math.Inf(1), math.Inf(-1), math.MaxFloat64, math.SmallestNonzeroFloat64, math.NaN())
	case reflect.Bool:
		return mk(true, false)
	case reflect.String:
		var out []reflect.Value
		for _, n := range StringLens {
			out = append(out, reflect.ValueOf(string(bytesPattern(n))).Convert(t))
		}
		return out
	case reflect.Uint32:
		ms := g.R.EnumMembers(t)
		if len(ms) == 0 {
			return mk(uint32(1), uint32(0), uint32(math.MaxUint32))
		}
		var out []reflect.Value
		for _, m := range ms {
			out = append(out, reflect.ValueOf(m).Convert(t))
		}
		return out
	case reflect.Slice:
		if t.Elem().Kind() == reflect.Uint8 {
			var out []reflect.Value
			for _, n := range StringLens {
				out = append(out, reflect.ValueOf(bytesPattern(n)).Convert(t))
			}
			return out
		}
		var out []reflect.Value
		for _, n := range []int{1, 0, 2, 3} {
			s := reflect.MakeSlice(t, n, n)
			for i := 0; i < n; i++ {
				ea := g.Alts(t.Elem(), budget, false)
				el := ea[i%len(ea)]
				if i >= len(ea) {
					// more items than alternatives: the items must still differ from one another (an item
					// that aliases or repeats its neighbour would otherwise go unnoticed)
					el = Clone(el)
					perturb(el, i)
				}
				s.Index(i).Set(el)
			}
			out = append(out, s)
		}
		if ek := t.Elem().Kind(); ek == reflect.String || (ek == reflect.Slice && t.Elem().Elem().Kind() == reflect.Uint8) {
			// several long items of different paddings in one vector
			lens := []int{300, 254, 255, 257}
			s := reflect.MakeSlice(t, len(lens), len(lens))
			for i, n := range lens {
				b := bytesPattern(n)
				for k := range b {
					b[k] |= 0x80
				}
				if ek == reflect.String {
					s.Index(i).Set(reflect.ValueOf(string(b)).Convert(t.Elem()))
				} else {
					s.Index(i).Set(reflect.ValueOf(b).Convert(t.Elem()))
				}
			}
			out = append(out, s)
		}
		// vectors inside the items of a vector: three items, each of whose own vector fields (to depth 3) has
		// three items too (an encoder or decoder that keeps per-vector state in one place mixes them up)
		if ek := t.Elem().Kind(); (ek == reflect.Ptr || ek == reflect.Interface) && len(out) >= 4 && out[3].Len() == 3 {
			vv := Clone(out[3])
			found := false
			for i := 0; i < vv.Len(); i++ {
				if g.growVectors(vv.Index(i), 3, 3) {
					found = true
				}
			}
			if found {
				out = append(out, vv)
			}
		}
		out = append(out, reflect.Zero(t)) // nil vector
		return out
	case reflect.Ptr:
		if isBig(t) {
			n := 16
			if t == reflect.TypeOf(&tl.Int256{}) {
				n = 32
			}
			ff := make([]byte, n)
			for i := range ff {
				ff[i] = 0xff
			}
			p := bytesPattern(n)
			z1 := append([]byte{0}, p[1:]...)
			z2 := append([]byte{0, 0}, p[2:]...)
			h := append([]byte{0x80}, p[1:]...)
			one := make([]byte, n)
			one[n-1] = 1
			return []reflect.Value{bigOf(t, p), bigOf(t, make([]byte, n)), bigOf(t, one), bigOf(t, z1), bigOf(t, z2), bigOf(t, h), bigOf(t, ff)}
		}
		if t.Elem().Kind() == reflect.Struct {
			if v, ok := g.Build(t, budget-1, false); ok {
				return []reflect.Value{v}
			}
			return nil
		}
	case reflect.Interface:
		impls := g.R.Implementers(t)
		// order by height so that the base is the simplest constructor
		sort.SliceStable(impls, func(i, j int) bool { return g.entryHeight(impls[i]) < g.entryHeight(impls[j]) })
		var out []reflect.Value
		for _, e := range impls {
			if t == objectType && len(out) >= 3 {
				break
			}
			if e.Enum {
				v := reflect.New(t).Elem()
				v.Set(reflect.ValueOf(e.CRC).Convert(e.Type))
				out = append(out, v)
			} else if e.IsStruct() {
				if pv, ok := g.Build(e.Type, budget-1, false); ok {
					v := reflect.New(t).Elem()
					v.Set(pv)
					out = append(out, v)
				}
			}
			if !substitute && len(out) >= 1 {
				break
			}
		}
		return out
	}
	return nil
}

// perturb makes v differ from its original in every mandatory scalar field it reaches directly (ints, longs,
// doubles, strings, byte strings), by an amount that depends on k.
func perturb(v reflect.Value, k int) {
	for v.Kind() == reflect.Ptr || v.Kind() == reflect.Interface {
		if v.IsNil() {
			return
		}
		v = v.Elem()
	}
	if v.Kind() != reflect.Struct || !v.CanSet() && v.NumField() == 0 {
		return
	}
	for i := 0; i < v.NumField(); i++ {
		f := v.Field(i)
		sf := v.Type().Field(i)
		if sf.PkgPath != "" || !f.CanSet() {
			continue
		}
		if tg := ParseTag(sf); tg.Has {
			continue // flags and conditional fields keep their shape
		}
		switch f.Kind() {
		case reflect.Int32, reflect.Int64:
			f.SetInt(f.Int() + int64(1000*k))
		case reflect.Float64:
			f.SetFloat(f.Float() + float64(k))
		case reflect.String:
			f.SetString(f.String() + string(rune('a'+k%26)))
		case reflect.Slice:
			if f.Type().Elem().Kind() == reflect.Uint8 {
				f.SetBytes(append(append([]byte{}, f.Bytes()...), byte(0x40+k)))
			}
		}
	}
}

// growVectors gives every vector field reachable from v (through pointers, interfaces and struct fields, to the
// given depth) n items that differ from one another; it reports whether there was any.
func (g *Gen) growVectors(v reflect.Value, n, depth int) bool {
	for v.Kind() == reflect.Ptr || v.Kind() == reflect.Interface {
		if v.IsNil() {
			return false
		}
		v = v.Elem()
	}
	if v.Kind() != reflect.Struct || depth == 0 {
		return false
	}
	found := false
	for i := 0; i < v.NumField(); i++ {
		f := v.Field(i)
		sf := v.Type().Field(i)
		if sf.PkgPath != "" || !f.CanSet() || ParseTag(sf).Ignore {
			continue
		}
		switch f.Kind() {
		case reflect.Slice:
			et := f.Type().Elem()
			if et.Kind() == reflect.Uint8 {
				continue
			}
			var seed reflect.Value
			if f.Len() > 0 {
				seed = f.Index(0)
			} else if alts := g.Alts(et, 1, false); len(alts) > 0 {
				seed = alts[0]
			} else {
				continue
			}
			ns := reflect.MakeSlice(f.Type(), n, n)
			for k := 0; k < n; k++ {
				el := Clone(seed)
				switch el.Kind() {
				case reflect.Int32, reflect.Int64:
					x := reflect.New(et).Elem()
					x.SetInt(el.Int() + int64(1000*k))
					el = x
				case reflect.String:
					x := reflect.New(et).Elem()
					x.SetString(el.String() + string(rune('a'+k)))
					el = x
				default:
					perturb(el, k)
					g.growVectors(el, n, depth-1)
				}
				ns.Index(k).Set(el)
			}
			f.Set(ns)
			found = true
		case reflect.Ptr, reflect.Interface, reflect.Struct:
			if !isBig(f.Type()) && g.growVectors(f, n, depth-1) {
				found = true
			}
		}
	}
	return found
}

func (g *Gen) entryHeight(e *Entry) int {
	if e.Enum {
		return 0
	}
	if h, ok := g.R.height[e.Type]; ok {
		return h
	}
	return inf
}

// Build makes the base value of a registered struct type (pointer). With
// minimal=true conditional fields stay zero. ok=false when a mandatory field
// cannot be built inside the nesting budget.
func (g *Gen) Build(pt reflect.Type, budget int, minimal bool) (reflect.Value, bool) {
	if h, ok := g.R.height[pt]; ok && h > budget+8 {
		return reflect.Value{}, false
	}
	st := pt.Elem()
	v := reflect.New(st)
	for i := 0; i < st.NumField(); i++ {
		f := st.Field(i)
		if f.PkgPath != "" {
			continue
		}
		tg := ParseTag(f)
		if tg.Ignore {
			continue
		}
		optional := tg.Has && tg.Optional
		if optional && (minimal || budget <= 0) {
			continue
		}
		var alts []reflect.Value
		if budget <= 0 {
			alts = g.minimalAlts(f.Type)
		} else {
			alts = g.Alts(f.Type, budget, false)
		}
		if len(alts) == 0 {
			if optional {
				continue
			}
			return reflect.Value{}, false
		}
		v.Elem().Field(i).Set(alts[0])
	}
	return v, true
}

// minimalAlts: the shallowest value of a type (used when the nesting budget is spent).
func (g *Gen) minimalAlts(t reflect.Type) []reflect.Value {
	switch t.Kind() {
	case reflect.Ptr:
		if isBig(t) || t.Elem().Kind() != reflect.Struct {
			return g.Alts(t, 1, false)
		}
		if v, ok := g.Build(t, 0, true); ok {
			return []reflect.Value{v}
		}
		return nil
	case reflect.Interface:
		impls := g.R.Implementers(t)
		sort.SliceStable(impls, func(i, j int) bool { return g.entryHeight(impls[i]) < g.entryHeight(impls[j]) })
		for _, e := range impls {
			if e.Enum {
				v := reflect.New(t).Elem()
				v.Set(reflect.ValueOf(e.CRC).Convert(e.Type))
				return []reflect.Value{v}
			}
			if e.IsStruct() {
				if pv, ok := g.Build(e.Type, 0, true); ok {
					v := reflect.New(t).Elem()
					v.Set(pv)
					return []reflect.Value{v}
				}
			}
		}
		return nil
	case reflect.Slice:
		if t.Elem().Kind() == reflect.Uint8 {
			return []reflect.Value{reflect.ValueOf([]byte{1}).Convert(t)}
		}
		return []reflect.Value{reflect.MakeSlice(t, 0, 0)}
	}
	return g.Alts(t, 1, false)
}

// Clone makes a deep copy of a generated value (so that deviations do not alias).
func Clone(v reflect.Value) reflect.Value {
	switch v.Kind() {
	case reflect.Ptr:
		if v.IsNil() {
			return v
		}
		if bi, ok := v.Interface().(*tl.Int128); ok {
			return reflect.ValueOf(&tl.Int128{Int: new(big.Int).Set(bi.Int)})
		}
		if bi, ok := v.Interface().(*tl.Int256); ok {
			return reflect.ValueOf(&tl.Int256{Int: new(big.Int).Set(bi.Int)})
		}
		n := reflect.New(v.Type().Elem())
		n.Elem().Set(Clone(v.Elem()))
		return n
	case reflect.Interface:
		if v.IsNil() {
			return v
		}
		n := reflect.New(v.Type()).Elem()
		n.Set(Clone(v.Elem()))
		return n
	case reflect.Struct:
		n := reflect.New(v.Type()).Elem()
		for i := 0; i < v.NumField(); i++ {
			if v.Type().Field(i).PkgPath != "" {
				continue
			}
			n.Field(i).Set(Clone(v.Field(i)))
		}
		return n
	case reflect.Slice:
		if v.IsNil() {
			return v
		}
		n := reflect.MakeSlice(v.Type(), v.Len(), v.Len())
		for i := 0; i < v.Len(); i++ {
			n.Index(i).Set(Clone(v.Index(i)))
		}
		return n
	}
	return v
}

// ---- normalising equality -------------------------------------------------------------

// Equal compares two values: nil and empty slices are the same vector, big
// integers compare by value, doubles bitwise. It returns the path of the first
// difference.
func Equal(a, b reflect.Value, path string) (bool, string) {
	if a.IsValid() != b.IsValid() {
		return false, path + ": validity"
	}
	if !a.IsValid() {
		return true, ""
	}
	if a.Type() != b.Type() {
		return false, fmt.Sprintf("%s: type %s vs %s", path, a.Type(), b.Type())
	}
	switch a.Kind() {
	case reflect.Ptr, reflect.Interface:
		if a.IsNil() || b.IsNil() {
			if a.IsNil() && b.IsNil() {
				return true, ""
			}
			return false, path + ": nil vs non-nil"
		}
		if a.Kind() == reflect.Ptr {
			if x, ok := a.Interface().(*tl.Int128); ok {
				y := b.Interface().(*tl.Int128)
				return bigEq(x.Int, y.Int), path + ": int128"
			}
			if x, ok := a.Interface().(*tl.Int256); ok {
				y := b.Interface().(*tl.Int256)
				return bigEq(x.Int, y.Int), path + ": int256"
			}
		}
		return Equal(a.Elem(), b.Elem(), path)
	case reflect.Struct:
		for i := 0; i < a.NumField(); i++ {
			if a.Type().Field(i).PkgPath != "" {
				continue
			}
			if ok, p := Equal(a.Field(i), b.Field(i), path+"."+a.Type().Field(i).Name); !ok {
				return false, p
			}
		}
		return true, ""
	case reflect.Slice:
		if a.Len() != b.Len() {
			return false, fmt.Sprintf("%s: len %d vs %d", path, a.Len(), b.Len())
		}
		for i := 0; i < a.Len(); i++ {
			if ok, p := Equal(a.Index(i), b.Index(i), fmt.Sprintf("%s[%d]", path, i)); !ok {
				return false, p
			}
		}
		return true, ""
	case reflect.Float64:
		// bitwise (so NaN equals NaN); +0 and -0 are the same number, and both are the zero value of a conditional field
		return math.Float64bits(a.Float()) == math.Float64bits(b.Float()) || (a.Float() == 0 && b.Float() == 0), path + ": double"
	case reflect.String:
		return a.String() == b.String(), path + ": string"
	case reflect.Bool:
		return a.Bool() == b.Bool(), path + ": bool"
	case reflect.Int32, reflect.Int64, reflect.Int:
		return a.Int() == b.Int(), path + ": int"
	case reflect.Uint32, reflect.Uint8, reflect.Uint64:
		return a.Uint() == b.Uint(), path + ": uint"
	}
	return reflect.DeepEqual(a.Interface(), b.Interface()), path + ": deep"
}

func bigEq(x, y *big.Int) bool {
	if x == nil || y == nil {
		return x == nil && y == nil
	}
	return x.Cmp(y) == 0
}

// IsZeroish: zero value, treating an empty slice like nil.
func IsZeroish(v reflect.Value) bool {
	if v.Kind() == reflect.Slice {
		return v.Len() == 0
	}
	return v.IsZero()
}

// Encodable reports whether the TL format can carry v under the group rule: no
// nil pointer/interface in a mandatory position or in a present flag group.
func Encodable(v reflect.Value) bool {
	switch v.Kind() {
	case reflect.Ptr, reflect.Interface:
		if v.IsNil() {
			return false
		}
		if v.Kind() == reflect.Ptr && isBig(v.Type()) {
			return true
		}
		return Encodable(v.Elem())
	case reflect.Slice:
		if v.Type().Elem().Kind() == reflect.Uint8 {
			return true
		}
		for i := 0; i < v.Len(); i++ {
			if !Encodable(v.Index(i)) {
				return false
			}
		}
		return true
	case reflect.Struct:
		t := v.Type()
		present := map[int]bool{}
		for i := 0; i < t.NumField(); i++ {
			if t.Field(i).PkgPath != "" {
				continue
			}
			if tg := ParseTag(t.Field(i)); tg.Has && tg.Optional && !v.Field(i).IsZero() {
				present[tg.Bit] = true
			}
		}
		for i := 0; i < t.NumField(); i++ {
			if t.Field(i).PkgPath != "" {
				continue
			}
			tg := ParseTag(t.Field(i))
			if tg.Ignore || tg.InFlags {
				continue
			}
			if tg.Has && tg.Optional && !present[tg.Bit] {
				continue
			}
			if !Encodable(v.Field(i)) {
				return false
			}
		}
		return true
	}
	return true
}

// Normalize returns a copy of v as the wire format represents it: a `true`-typed
// member (encoded in the flags word) of a present group is true, because the bit
// is the value.
func Normalize(v reflect.Value) reflect.Value {
	c := Clone(v)
	normalize(c)
	return c
}

func normalize(v reflect.Value) {
	switch v.Kind() {
	case reflect.Ptr, reflect.Interface:
		if !v.IsNil() && !(v.Kind() == reflect.Ptr && isBig(v.Type())) {
			if v.Kind() == reflect.Interface {
				// interface elements are not addressable: normalise a copy and set it back
				e := v.Elem()
				if e.Kind() == reflect.Ptr && !e.IsNil() {
					normalize(e)
				}
				return
			}
			normalize(v.Elem())
		}
	case reflect.Slice:
		for i := 0; i < v.Len(); i++ {
			normalize(v.Index(i))
		}
	case reflect.Struct:
		t := v.Type()
		present := map[int]bool{}
		for i := 0; i < t.NumField(); i++ {
			if t.Field(i).PkgPath != "" {
				continue
			}
			if tg := ParseTag(t.Field(i)); tg.Has && tg.Optional && !v.Field(i).IsZero() {
				present[tg.Bit] = true
			}
		}
		for i := 0; i < t.NumField(); i++ {
			if t.Field(i).PkgPath != "" {
				continue
			}
			tg := ParseTag(t.Field(i))
			if tg.Has && tg.InFlags && present[tg.Bit] && v.Field(i).Kind() == reflect.Bool && v.Field(i).CanSet() {
				v.Field(i).SetBool(true)
			}
			if v.Field(i).CanSet() || v.Field(i).Kind() == reflect.Ptr || v.Field(i).Kind() == reflect.Interface || v.Field(i).Kind() == reflect.Slice {
				normalize(v.Field(i))
			}
		}
	}
}
