package tlx

import (
	"fmt"
	"math/big"
	"os"
	"reflect"
	"strings"

	"github.com/xelaj/mtproto/internal/encoding/tl"
	"github.com/xelaj/mtproto/zverif/ref/tlschema"
	"github.com/xelaj/mtproto/zverif/ref/tlw"
)

// Schemas indexes the shipped schema files by constructor id and name (R1).
type Schemas struct {
	ByID     map[uint32]*tlschema.Def
	ByName   map[string]*tlschema.Def
	ByResult map[string][]*tlschema.Def // constructors of a type (functions excluded)
	All      []*tlschema.Def
	File     map[*tlschema.Def]string
}

func LoadSchemas(files ...string) (*Schemas, error) {
	s := &Schemas{ByID: map[uint32]*tlschema.Def{}, ByName: map[string]*tlschema.Def{}, ByResult: map[string][]*tlschema.Def{}, File: map[*tlschema.Def]string{}}
	for _, f := range files {
		b, err := os.ReadFile(f)
		if err != nil {
			return nil, err
		}
		sc, err := tlschema.Parse(string(b))
		if err != nil {
			return nil, fmt.Errorf("%s: %v", f, err)
		}
		for _, d := range sc.Defs {
			s.All = append(s.All, d)
			s.File[d] = f
			if d.HasID {
				if _, dup := s.ByID[d.ID]; dup {
					return nil, fmt.Errorf("%s: duplicate id %08x", f, d.ID)
				}
				s.ByID[d.ID] = d
			}
			s.ByName[d.Name] = d
			if !d.Func {
				s.ByResult[d.Result.Name] = append(s.ByResult[d.Result.Name], d)
			}
		}
	}
	return s, nil
}

func RepoDir() string {
	if d := os.Getenv("VERIF_REPO_DIR"); d != "" {
		return d
	}
	return "/repo"
}

// Fields lists the struct fields that correspond to schema parameters.
func Fields(st reflect.Type) []int {
	var out []int
	for i := 0; i < st.NumField(); i++ {
		f := st.Field(i)
		if f.PkgPath != "" || ParseTag(f).Ignore {
			continue
		}
		out = append(out, i)
	}
	return out
}

type RefError struct{ Msg string }

func (e *RefError) Error() string { return e.Msg }

// Encode is the reference serialiser: it reads the Go value positionally (i-th
// schema parameter <-> i-th struct field) and writes what the schema line
// defines. It returns *RefError when the value has no schema-defined encoding.
func (s *Schemas) Encode(v reflect.Value) (out []byte, err error) {
	defer func() {
		if r := recover(); r != nil {
			if re, ok := r.(*RefError); ok {
				out, err = nil, re
				return
			}
			panic(r)
		}
	}()
	w := &tlw.W{}
	s.boxed(w, v)
	return w.B, nil
}

func fail(f string, a ...any) { panic(&RefError{fmt.Sprintf(f, a...)}) }

// boxed writes a value with its constructor id.
func (s *Schemas) boxed(w *tlw.W, v reflect.Value) {
	for v.Kind() == reflect.Interface {
		if v.IsNil() {
			fail("nil object")
		}
		v = v.Elem()
	}
	switch v.Kind() {
	case reflect.Uint32: // enum member: the value is the id
		id := uint32(v.Uint())
		d, ok := s.ByID[id]
		if !ok || len(d.Params) != 0 {
			fail("enum value %#x is not a parameterless constructor of the schema", id)
		}
		w.U32(id)
		return
	case reflect.Ptr:
		if v.IsNil() {
			fail("nil object")
		}
		o, ok := v.Interface().(tl.Object)
		if !ok {
			fail("%s is not an object", v.Type())
		}
		d, ok := s.ByID[o.CRC()]
		if !ok {
			fail("no schema definition for constructor %#08x (%s)", o.CRC(), v.Type())
		}
		w.U32(d.ID)
		s.body(w, d, v.Elem())
		return
	}
	fail("cannot serialise %s as an object", v.Type())
}

func (s *Schemas) body(w *tlw.W, d *tlschema.Def, sv reflect.Value) {
	if sv.Kind() != reflect.Struct {
		fail("%s: Go value of kind %s for constructor %s", sv.Type(), sv.Kind(), d.Name)
	}
	fidx := Fields(sv.Type())
	params := d.NonFlagParams()
	if len(fidx) != len(params) {
		fail("%s has %d fields, schema constructor %s has %d parameters", sv.Type(), len(fidx), d.Name, len(params))
	}
	// presence of conditional groups: a bit is set iff any parameter on it is non-zero
	bits := map[string]uint32{}
	for i, p := range params {
		if p.CondBit >= 0 && !sv.Field(fidx[i]).IsZero() {
			bits[p.CondOn] |= 1 << uint(p.CondBit)
		}
	}
	fi := 0
	for _, p := range d.Params {
		if p.Flags {
			w.U32(bits[p.Name])
			continue
		}
		fv := sv.Field(fidx[fi])
		fi++
		if p.CondBit >= 0 && bits[p.CondOn]&(1<<uint(p.CondBit)) == 0 {
			continue
		}
		if p.Type.Name == "true" {
			continue
		}
		s.value(w, p.Type, fv)
	}
}

func (s *Schemas) value(w *tlw.W, t tlschema.Type, fv reflect.Value) {
	switch t.Name {
	case "int":
		w.I32(int32(fv.Int()))
	case "long":
		w.I64(fv.Int())
	case "double":
		w.F64(fv.Float())
	case "string":
		if fv.Kind() != reflect.String {
			fail("string parameter held in Go %s", fv.Kind())
		}
		if fv.Len() >= 1<<24 {
			fail("string of %d bytes is not representable", fv.Len())
		}
		w.Str([]byte(fv.String()))
	case "bytes":
		if fv.Kind() != reflect.Slice {
			fail("bytes parameter held in Go %s", fv.Kind())
		}
		if fv.Len() >= 1<<24 {
			fail("byte string of %d bytes is not representable", fv.Len())
		}
		w.Str(fv.Bytes())
	case "Bool":
		w.Bool(fv.Bool())
	case "int128", "int256":
		n := 16
		if t.Name == "int256" {
			n = 32
		}
		var bi *big.Int
		switch x := fv.Interface().(type) {
		case *tl.Int128:
			if x != nil {
				bi = x.Int
			}
		case *tl.Int256:
			if x != nil {
				bi = x.Int
			}
		}
		if bi == nil {
			fail("nil %s", t.Name)
		}
		b := bi.Bytes()
		if len(b) > n {
			fail("%s overflow", t.Name)
		}
		w.Raw(make([]byte, n-len(b))).Raw(b)
	case "Vector", "vector":
		if fv.Kind() != reflect.Slice {
			fail("vector parameter held in Go %s", fv.Kind())
		}
		if t.Name == "Vector" {
			w.U32(tlw.Vector)
		}
		w.U32(uint32(fv.Len()))
		for i := 0; i < fv.Len(); i++ {
			s.value(w, *t.Elem, fv.Index(i))
		}
	case "Object", "X":
		s.boxed(w, fv)
	default:
		if t.Bare {
			// bare constructor reference: fields without the id
			d, ok := s.ByName[t.Name]
			if !ok {
				d, ok = s.ByName[strings.ToLower(t.Name[:1])+t.Name[1:]]
			}
			if !ok {
				fail("unknown bare constructor %s", t.Name)
			}
			v := fv
			for v.Kind() == reflect.Ptr || v.Kind() == reflect.Interface {
				if v.IsNil() {
					fail("nil bare object")
				}
				v = v.Elem()
			}
			s.body(w, d, v)
			return
		}
		s.boxed(w, fv)
	}
}
