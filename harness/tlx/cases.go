package tlx

import (
	"fmt"
	"reflect"
	"sort"
	"strings"

	"github.com/xelaj/mtproto/internal/encoding/tl"
)

// Label names the shape class of a field value (used in case ids and site keys).
func Label(v reflect.Value) string {
	if !v.IsValid() {
		return "invalid"
	}
	switch v.Kind() {
	case reflect.Int32, reflect.Int64:
		return fmt.Sprintf("int:%d", v.Int())
	case reflect.Float64:
		return fmt.Sprintf("double:%v", v.Float())
	case reflect.Bool:
		return fmt.Sprintf("bool:%v", v.Bool())
	case reflect.String:
		return fmt.Sprintf("str:len%d", v.Len())
	case reflect.Uint32:
		return fmt.Sprintf("enum:%#x", v.Uint())
	case reflect.Slice:
		if v.Type().Elem().Kind() == reflect.Uint8 {
			return fmt.Sprintf("bytes:len%d", v.Len())
		}
		if v.IsNil() {
			return "vec:nil"
		}
		return fmt.Sprintf("vec:n%d", v.Len())
	case reflect.Ptr:
		if v.IsNil() {
			return "ptr:nil"
		}
		if bi, ok := v.Interface().(*tl.Int128); ok {
			return "int128:" + bigClass(bi.Int.Bytes(), 16)
		}
		if bi, ok := v.Interface().(*tl.Int256); ok {
			return "int256:" + bigClass(bi.Int.Bytes(), 32)
		}
		return "obj:" + strings.TrimPrefix(v.Type().String(), "*")
	case reflect.Interface:
		if v.IsNil() {
			return "iface:nil"
		}
		return "iface:" + strings.TrimPrefix(v.Elem().Type().String(), "*")
	}
	return v.Kind().String()
}

func bigClass(b []byte, width int) string {
	lz := width - len(b)
	switch {
	case len(b) == 0:
		return "zero"
	case lz > 2:
		return "small"
	case lz > 0:
		return fmt.Sprintf("lz%d", lz)
	case b[0] == 0xff:
		return "allff"
	case b[0] >= 0x80:
		return "topbit"
	}
	return "full"
}

type Case struct {
	ID    string // constructor|base|deviations
	Field string // first deviating field or group ("" for bases)
	Shape string // shape class of the deviation
	V     reflect.Value
	Devs  int
}

type field struct {
	idx  int
	name string
	tag  Tag
	alts []reflect.Value
}

// Cases enumerates the shape alphabet for one registered struct type:
// two bases, every single-field deviation from each base, every presence
// pattern of every shared flag-bit group, and (k>=2) every pair of deviations
// among the first few alternatives of each field.
func (g *Gen) Cases(e *Entry, k int, emit func(c Case)) (built bool) {
	if !e.IsStruct() {
		return false
	}
	name := e.Name()
	b0, ok0 := g.Build(e.Type, 2, false)
	bE, okE := g.Build(e.Type, 2, true)
	if !ok0 || !okE {
		return false
	}
	st := e.Type.Elem()
	var fs []field
	groups := map[int][]int{} // bit -> indices into fs
	for i := 0; i < st.NumField(); i++ {
		f := st.Field(i)
		if f.PkgPath != "" {
			continue
		}
		tg := ParseTag(f)
		if tg.Ignore {
			continue
		}
		fl := field{idx: i, name: f.Name, tag: tg, alts: g.Alts(f.Type, 2, true)}
		if tg.Has && tg.Optional {
			groups[tg.Bit] = append(groups[tg.Bit], len(fs))
		}
		fs = append(fs, fl)
	}
	emit(Case{ID: name + "|B0", V: b0})
	emit(Case{ID: name + "|Bmin", V: bE})
	set := func(base reflect.Value, fl field, val reflect.Value) reflect.Value {
		c := Clone(base)
		c.Elem().Field(fl.idx).Set(Clone(val))
		return c
	}
	for _, fl := range fs {
		zero := reflect.Zero(st.Field(fl.idx).Type)
		for ai, a := range fl.alts {
			if ai > 0 {
				emit(Case{ID: fmt.Sprintf("%s|B0|%s=%s#%d", name, fl.name, Label(a), ai), Field: fl.name, Shape: Label(a), V: set(b0, fl, a), Devs: 1})
			}
			emit(Case{ID: fmt.Sprintf("%s|Bmin|%s=%s#%d", name, fl.name, Label(a), ai), Field: fl.name, Shape: Label(a), V: set(bE, fl, a), Devs: 1})
		}
		if fl.tag.Has && fl.tag.Optional {
			emit(Case{ID: fmt.Sprintf("%s|B0|%s=zero", name, fl.name), Field: fl.name, Shape: "zero", V: set(b0, fl, zero), Devs: 1})
		}
	}
	// shared-bit groups: full product member zero / non-zero, on both bases
	var bits []int
	for b := range groups {
		bits = append(bits, b)
	}
	sort.Ints(bits)
	for _, b := range bits {
		ms := groups[b]
		if len(ms) < 2 {
			continue
		}
		for mask := 0; mask < 1<<len(ms); mask++ {
			for bi, base := range []reflect.Value{b0, bE} {
				c := Clone(base)
				pat := ""
				okp := true
				for j, m := range ms {
					fl := fs[m]
					if mask&(1<<j) != 0 {
						if len(fl.alts) == 0 {
							okp = false
							break
						}
						c.Elem().Field(fl.idx).Set(Clone(fl.alts[0]))
						pat += "1"
					} else {
						c.Elem().Field(fl.idx).Set(reflect.Zero(st.Field(fl.idx).Type))
						pat += "0"
					}
				}
				if okp {
					emit(Case{ID: fmt.Sprintf("%s|B%d|group-bit%d=%s", name, bi, b, pat), Field: fmt.Sprintf("group-bit%d", b), Shape: "members=" + pat, V: c, Devs: len(ms)})
				}
			}
		}
	}
	// two long strings in one value: every ordered pair of string/bytes fields gets a longer and a shorter
	// long value whose paddings differ (scratch space shared between the strings of one encoding shows here)
	isStr := func(fl field) bool {
		t := st.Field(fl.idx).Type
		return t.Kind() == reflect.String || (t.Kind() == reflect.Slice && t.Elem().Kind() == reflect.Uint8)
	}
	mkStr := func(fl field, n int) reflect.Value {
		t := st.Field(fl.idx).Type
		b := bytesPattern(n)
		for i := range b {
			b[i] |= 0x80 // never zero, so that stale bytes are visible in padding
		}
		if t.Kind() == reflect.String {
			return reflect.ValueOf(string(b)).Convert(t)
		}
		return reflect.ValueOf(b).Convert(t)
	}
	for i := 0; i < len(fs); i++ {
		if !isStr(fs[i]) {
			continue
		}
		for j := i + 1; j < len(fs); j++ {
			if !isStr(fs[j]) {
				continue
			}
			for _, lp := range [][2]int{{300, 254}, {257, 255}, {65536, 257}, {254, 300}} {
				c := set(b0, fs[i], mkStr(fs[i], lp[0]))
				c.Elem().Field(fs[j].idx).Set(mkStr(fs[j], lp[1]))
				emit(Case{ID: fmt.Sprintf("%s|B0|%s=long%d,%s=long%d", name, fs[i].name, lp[0], fs[j].name, lp[1]),
					Field: fs[i].name + "+" + fs[j].name, Shape: fmt.Sprintf("long%d+long%d", lp[0], lp[1]), V: c, Devs: 2})
			}
		}
	}
	if k >= 2 {
		for i := 0; i < len(fs); i++ {
			for j := i + 1; j < len(fs); j++ {
				ai, aj := fs[i].alts, fs[j].alts
				for x := 1; x < len(ai) && x <= 3; x++ {
					for y := 1; y < len(aj) && y <= 3; y++ {
						c := set(b0, fs[i], ai[x])
						c.Elem().Field(fs[j].idx).Set(Clone(aj[y]))
						emit(Case{ID: fmt.Sprintf("%s|B0|%s=%s#%d,%s=%s#%d", name, fs[i].name, Label(ai[x]), x, fs[j].name, Label(aj[y]), y),
							Field: fs[i].name + "+" + fs[j].name, Shape: Label(ai[x]) + "+" + Label(aj[y]), V: c, Devs: 2})
					}
				}
			}
		}
	}
	return true
}
