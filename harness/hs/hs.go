// Package hs holds what the key-exchange checks (C06, C07, C19, C11-F) share:
// committed test keys, the server parameter alphabets and a runner.
package hs

import (
	"crypto/rsa"
	"crypto/x509"
	"encoding/pem"
	"fmt"
	"math/big"
	"os"
	"path/filepath"

	"github.com/xelaj/mtproto/zverif/ref/authsrv"
	"github.com/xelaj/mtproto/zverif/ref/rpcsrv"
	"github.com/xelaj/mtproto/zverif/sess"
	"github.com/xelaj/mtproto/zverif/vr"
)

const TelegramPrime = "C71CAEB9C6B1C9048E6C522F70F13F73980D40238E3E21C14934D037563D930F48198A0AA7C14058229493D22530F4DBFA336F6E0AC925139543AED44CCE7C3720FD51F69458705AC68CD4FE6B6B13ABDC9746512969328454F18FAF8C595F642477FE96BB2A941D5BCD1D4AC8CC49880708FA9B378E3C4F3A9060BEE67CF9A4A4A695811051907E162753B56B0F6B410DBA74D8A84B2A14B3144E0EF1284754FD17ED950D5965B4B9DD46582DB1178D169C6BC465B0D6FF9CA3928FEF5B9AE4E418FC15E83EBEA0F87FA9FF5EED70050DED2849F47BF959D956850CE929851F0D8115F635B105EE2E4E15D04B2454BF6F4FADF034B10403119CD8E3B92FCC5B"
const RFC3526Group14 = "FFFFFFFFFFFFFFFFC90FDAA22168C234C4C6628B80DC1CD129024E088A67CC74020BBEA63B139B22514A08798E3404DDEF9519B3CD3A431B302B0A6DF25F14374FE1356D6D51C245E485B576625E7EC6F44C42E9A637ED6B0BFF5CB6F406B7EDEE386BFB5A899FA5AE9F24117C4B1FE649286651ECE45B3DC2007CB8A163BF0598DA48361C55D39A69163FA8FD24CF5F83655D23DCA3AD961C62F356208552BB9ED529077096966D670C354E4ABC9804F1746C08CA18217C32905E462E36CE3BE39E772C180E86039B2783A2EC07A28FB5C55DF06F4C52C9DE2BCBF6955817183995497CEA956AE515D2261898FA051015728E5A8AACAA68FFFFFFFFFFFFFFFF"

func HexBig(s string) *big.Int { b, _ := new(big.Int).SetString(s, 16); return b }

var keys []*rsa.PrivateKey

// Key returns the i-th committed RSA test key (testdata/rsa_test_key_<i>.pem).
func Key(i int) *rsa.PrivateKey {
	if keys == nil {
		for k := 0; k < 3; k++ {
			b, err := os.ReadFile(filepath.Join(vr.Root(), "testdata", fmt.Sprintf("rsa_test_key_%d.pem", k)))
			if err != nil {
				vr.HarnessError("test key: %v", err)
			}
			blk, _ := pem.Decode(b)
			key, err := x509.ParsePKCS1PrivateKey(blk.Bytes)
			if err != nil {
				vr.HarnessError("test key: %v", err)
			}
			keys = append(keys, key)
		}
	}
	return keys[i]
}

func Nonce(lz int, salt byte) []byte {
	b := make([]byte, 16)
	for i := range b {
		if i >= lz {
			b[i] = byte(0x31+7*i) ^ salt
		}
	}
	return b
}

// DefaultA: the server's default DH secret.
func DefaultA() *big.Int {
	b := make([]byte, 256)
	for i := range b {
		b[i] = byte(i*13 + 5)
	}
	return new(big.Int).SetBytes(b)
}

// Base is the conformant default server.
func Base() authsrv.Config {
	return authsrv.Config{Key: Key(0), P: 1048583, Q: 1053581, Prime: HexBig(TelegramPrime), G: 3,
		ServerNonce: Nonce(0, 0), A: DefaultA(), Pad: -1, ServerTime: 1600000000}
}

// Scenario wraps a server configuration into a session-harness scenario with one probe request.
func Scenario(name string, cfg authsrv.Config, seed uint64) *sess.Scenario {
	c := cfg
	if c.Pad < 0 {
		c.Pad = 0 // authsrv recomputes the unique legal padding when the given one does not fit
	}
	return &sess.Scenario{Name: name, Fresh: &c, Seed: seed, Callers: [][]sess.Call{{{Tag: 1, Kind: rpcsrv.KObj}}}}
}

func LZ(b []byte) int {
	n := 0
	for n < len(b) && b[n] == 0 {
		n++
	}
	return n
}
