package mtproto

// Harness-only exports (added through the build overlay; not part of /repo).

func VerifErrorCatalogue() map[string]string { return errorMessages }

func VerifSpecificErrors() [][2]string {
	var out [][2]string
	for _, e := range specificErrors {
		out = append(out, [2]string{e.prefix, e.suffix})
	}
	return out
}
