package tl

import "reflect"

// Harness-only read-only exports (added through the build overlay).

func VerifRegistry() map[uint32]reflect.Type {
	out := make(map[uint32]reflect.Type, len(objectByCrc))
	for k, v := range objectByCrc {
		out[k] = v
	}
	return out
}

func VerifEnums() map[uint32]bool {
	out := make(map[uint32]bool, len(enumCrcs))
	for k := range enumCrcs {
		out[k] = true
	}
	return out
}
