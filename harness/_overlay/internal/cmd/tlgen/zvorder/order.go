// Package zvorder (harness-only, added through the build overlay) owns the iteration order of the
// generator's maps: keys are sorted and then permuted by the index given in VERIF_MAP_PERM
// (0 = sorted, 1 = reverse, 2.. = rotations; all 6 permutations for maps of up to 3 keys).
package zvorder

import (
	"fmt"
	"os"
	"reflect"
	"sort"
	"strconv"
)

func perm(n, idx int) []int {
	p := make([]int, n)
	for i := range p {
		p[i] = i
	}
	if n <= 1 {
		return p
	}
	if n <= 3 {
		f := 1
		for i := 2; i <= n; i++ {
			f *= i
		}
		idx %= f
		avail := append([]int{}, p...)
		out := make([]int, 0, n)
		ff := f / n
		k := idx
		for i := n - 1; i >= 0; i-- {
			j := k / ff
			k %= ff
			out = append(out, avail[j])
			avail = append(avail[:j], avail[j+1:]...)
			if i > 0 {
				ff /= i
			}
		}
		return out
	}
	idx %= n + 1
	if idx == 1 {
		for i := range p {
			p[i] = n - 1 - i
		}
		return p
	}
	if idx >= 2 {
		for i := range p {
			p[i] = (i + idx - 1) % n
		}
	}
	return p
}

// Keys returns the keys of map m in the owned order.
func Keys(m interface{}) []interface{} {
	v := reflect.ValueOf(m)
	ks := v.MapKeys()
	sort.Slice(ks, func(i, j int) bool { return fmt.Sprint(ks[i].Interface()) < fmt.Sprint(ks[j].Interface()) })
	idx, _ := strconv.Atoi(os.Getenv("VERIF_MAP_PERM"))
	out := make([]interface{}, len(ks))
	for i, j := range perm(len(ks), idx) {
		out[i] = ks[j].Interface()
	}
	return out
}
