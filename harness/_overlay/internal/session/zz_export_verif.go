package session

import "time"

// VerifLoaderState exposes the file loader's cache for the harness's canonical state key
// (added through the build overlay; read-only).
func VerifLoaderState(l SessionLoader) (cached *Session, lastEdited time.Time, ok bool) {
	g, isFile := l.(*genericFileSessionLoader)
	if !isFile {
		return nil, time.Time{}, false
	}
	return g.cached, g.lastEdited, true
}
