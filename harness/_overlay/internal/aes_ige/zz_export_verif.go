package ige

import "math/big"

// Harness-only exports (added through the build overlay; not part of /repo).

func VerifIGEEncrypt(data, out, key, iv []byte) error { return doAES256IGEencrypt(data, out, key, iv) }
func VerifIGEDecrypt(data, out, key, iv []byte) error { return doAES256IGEdecrypt(data, out, key, iv) }
func (c *Cipher) VerifEncrypt(in, out []byte) error    { return c.doAES256IGEencrypt(in, out) }
func (c *Cipher) VerifDecrypt(in, out []byte) error    { return c.doAES256IGEdecrypt(in, out) }
func VerifTempKeys(a, b *big.Int) (key, iv []byte)    { return generateTempKeys(a, b) }
func VerifKDF(msgKey, authKey []byte, decode bool) ([]byte, []byte) {
	return generateAESIGE(msgKey, authKey, decode)
}
