package transport

import (
	"github.com/pkg/errors"
	"github.com/xelaj/mtproto/internal/mode"
	"github.com/xelaj/mtproto/internal/mtproto/messages"
)

// VerifNewTransport builds the real transport around an injected connection
// (harness-only; added through the build overlay).
func VerifNewTransport(m messages.MessageInformator, conn Conn, modeVariant mode.Variant) (Transport, error) {
	t := &transport{m: m, conn: conn}
	var err error
	t.mode, err = mode.New(modeVariant, t.conn)
	if err != nil {
		return nil, errors.Wrap(err, "setup mode")
	}
	return t, nil
}

// VerifDial, when set, replaces the TCP dial in NewTCP (the call is inserted by
// the instrumenter at the top of NewTCP).
var VerifDial func(cfg TCPConnConfig) (Conn, error)
