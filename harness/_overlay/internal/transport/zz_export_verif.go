package transport

import (
	"context"
	"io"

	"github.com/pkg/errors"
	"github.com/xelaj/go-dry/ioutil"
	"github.com/xelaj/mtproto/internal/mode"
	"github.com/xelaj/mtproto/internal/mtproto/messages"
)

// VerifNewTransport builds the real transport around an injected connection
// (harness-only; added through the build overlay).
func VerifNewTransport(m messages.MessageInformator, conn Conn, modeVariant mode.Variant) (Transport, error) {
	t := &transport{m: m, conn: conn}
	var err error
	t.mode, err = mode.New(modeVariant, t.conn)
	if err != nil {
		return nil, errors.Wrap(err, "setup mode")
	}
	return t, nil
}

// VerifDial, when set, replaces the TCP dial in NewTCP (the call is inserted by
// the instrumenter at the top of NewTCP).
var VerifDial func(cfg TCPConnConfig) (Conn, error)

// VerifNewTCPConnFromReader builds the real tcpConn read path (CancelableReader -> io.ReadFull) over an
// arbitrary reader, so that the harness can decide how the byte stream is segmented.
func VerifNewTCPConnFromReader(ctx context.Context, r io.Reader, w io.Writer) Conn {
	return &verifConn{tcpConn: &tcpConn{cancelReader: ioutil.NewCancelableReader(ctx, r)}, w: w}
}

type verifConn struct {
	*tcpConn
	w io.Writer
}

func (v *verifConn) Write(b []byte) (int, error) { return v.w.Write(b) }
func (v *verifConn) Close() error                { return nil }
