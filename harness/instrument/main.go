// Command instrument writes a `go build -overlay` file that (1) replaces
// repository sources by rewritten copies in which blocking operations, clock
// reads and random draws go through the harness shims, and (2) adds harness
// export files to repository packages. /repo itself is never modified.
//
// The rewrite is syntactic (go/ast): channel sends/receives, go statements and
// selects are recognised by their syntax, the sync/math-rand/crypto-rand
// imports by their path, time.Now/dry.RandomBytes by selector.
package main

import (
	"bytes"
	"encoding/json"
	"flag"
	"fmt"
	"go/ast"
	"go/format"
	"go/parser"
	"go/token"
	"os"
	"path/filepath"
	"sort"
	"strconv"
	"strings"
)

const (
	pSched  = "github.com/xelaj/mtproto/zverif/sched"
	pVsync  = "github.com/xelaj/mtproto/zverif/vsync"
	pVclock = "github.com/xelaj/mtproto/zverif/vclock"
	pVrand  = "github.com/xelaj/mtproto/zverif/vrand"
	pVcrand = "github.com/xelaj/mtproto/zverif/vcrand"
)

type inventory struct {
	Sends, Recvs, Gos, Selects, SelectDefaults                                            int
	SyncImports, TimeNow, MathRand, CryptoRand, DryRandom, MapRanges, KeysOrder, DialSeam int
	Unhooked                                                                              []string
	Files                                                                                 []string
}

var inv inventory

func main() {
	repo := flag.String("repo", "/repo", "repository root")
	out := flag.String("out", "", "output directory")
	added := flag.String("added", "", "directory with files to add (mirrors repo layout)")
	flag.Parse()
	if *out == "" {
		fail("need -out")
	}
	_ = os.RemoveAll(*out)
	must(os.MkdirAll(*out, 0o755))
	replace := map[string]string{}

	collectGenMaps(filepath.Join(*repo, "internal/cmd/tlgen/gen"))
	var files []string
	must(filepath.Walk(*repo, func(p string, fi os.FileInfo, err error) error {
		if err != nil {
			return err
		}
		rel, _ := filepath.Rel(*repo, p)
		if fi.IsDir() {
			b := filepath.Base(p)
			if rel != "." && (strings.HasPrefix(b, ".") || b == "examples" || b == "docs" || b == "testdata" || b == "schemes") {
				return filepath.SkipDir
			}
			return nil
		}
		if !strings.HasSuffix(p, ".go") || strings.HasSuffix(p, "_test.go") {
			return nil
		}
		if strings.HasSuffix(p, "_gen.go") && fi.Size() > 200_000 {
			return nil // generated declarations only; nothing to hook
		}
		files = append(files, p)
		return nil
	}))
	sort.Strings(files)
	for _, f := range files {
		src, err := os.ReadFile(f)
		must(err)
		if !mayNeedRewrite(src) {
			continue
		}
		rel, _ := filepath.Rel(*repo, f)
		res, changed, err := rewriteFile(f, src, rel)
		if err != nil {
			fail("%s: %v", f, err)
		}
		if !changed {
			continue
		}
		dst := filepath.Join(*out, "src", rel)
		must(os.MkdirAll(filepath.Dir(dst), 0o755))
		must(os.WriteFile(dst, res, 0o644))
		replace[f] = dst
		inv.Files = append(inv.Files, rel)
	}
	if *added != "" {
		must(filepath.Walk(*added, func(p string, fi os.FileInfo, err error) error {
			if err != nil || fi.IsDir() {
				return err
			}
			rel, _ := filepath.Rel(*added, p)
			// a file "x.go.when-<text>" / "x.go.unless-<text>" is added as x.go only when the repository file named on
			// its first line ("//verif:file <path>") contains / does not contain <text> (with '~' for a space): harness
			// exports that reach into private fields come in two variants, so that a refactoring of those fields
			// leaves the harness buildable
			if i := strings.Index(rel, ".go."); i >= 0 {
				cond := rel[i+len(".go."):]
				rel = rel[:i+len(".go")]
				src, _ := os.ReadFile(p)
				first := strings.SplitN(string(src), "\n", 2)[0]
				if !strings.HasPrefix(first, "//verif:file ") {
					fail("conditional added file without //verif:file line: %s", p)
				}
				subject, _ := os.ReadFile(filepath.Join(*repo, strings.TrimSpace(strings.TrimPrefix(first, "//verif:file "))))
				subject = []byte(strings.Join(strings.Fields(string(subject)), " ")) // runs of white space count as one space
				has := func(t string) bool { return bytes.Contains(subject, []byte(strings.ReplaceAll(t, "~", " "))) }
				switch {
				case strings.HasPrefix(cond, "when-"):
					if !has(strings.TrimPrefix(cond, "when-")) {
						return nil
					}
				case strings.HasPrefix(cond, "unless-"):
					if has(strings.TrimPrefix(cond, "unless-")) {
						return nil
					}
				default:
					fail("unknown condition on added file %s", p)
				}
				dst := filepath.Join(*out, "cond", rel)
				must(os.MkdirAll(filepath.Dir(dst), 0o755))
				must(os.WriteFile(dst, src, 0o644))
				p = dst
			}
			if !strings.HasSuffix(rel, ".go") {
				return nil
			}
			target := filepath.Join(*repo, rel)
			if _, err := os.Stat(target); err == nil {
				fail("added file would shadow an existing repository file: %s", target)
			}
			replace[target] = p
			return nil
		}))
	}
	if inv.DialSeam != 1 {
		fail("dial seam: expected exactly one transport.NewTCP(cfg), found %d", inv.DialSeam)
	}
	b, _ := json.MarshalIndent(map[string]any{"Replace": replace}, "", " ")
	must(os.WriteFile(filepath.Join(*out, "overlay.json"), b, 0o644))
	ib, _ := json.MarshalIndent(inv, "", " ")
	must(os.WriteFile(filepath.Join(*out, "inventory.json"), ib, 0o644))
}

func mayNeedRewrite(src []byte) bool {
	for _, k := range []string{"func NewTCP(", "<-", "go ", "select", `"sync"`, "time.Now", "time.Sleep", `"math/rand"`, `"crypto/rand"`, "RandomBytes", "range map[", "Keys()"} {
		if bytes.Contains(src, []byte(k)) {
			return true
		}
	}
	return bytes.Contains(src, []byte("package gen"))
}

func fail(f string, a ...any) {
	fmt.Fprintf(os.Stderr, "instrument: "+f+"\n", a...)
	os.Exit(2)
}

func must(err error) {
	if err != nil {
		fail("%v", err)
	}
}

type rw struct {
	fset     *token.FileSet
	file     *ast.File
	rel      string
	changed  bool
	needImp  map[string]string // path -> name
	done     map[ast.Stmt]bool
	timeName string
	dryName  string
	tmp      int
}

func rewriteFile(path string, src []byte, rel string) ([]byte, bool, error) {
	fset := token.NewFileSet()
	f, err := parser.ParseFile(fset, path, src, parser.ParseComments)
	if err != nil {
		return nil, false, err
	}
	r := &rw{fset: fset, file: f, rel: rel, needImp: map[string]string{}, done: map[ast.Stmt]bool{}}
	// imports
	for _, im := range f.Imports {
		p, _ := strconv.Unquote(im.Path.Value)
		name := ""
		if im.Name != nil {
			name = im.Name.Name
		}
		switch p {
		case "sync":
			if name == "" {
				im.Name = ast.NewIdent("sync")
			}
			im.Path.Value = strconv.Quote(pVsync)
			r.changed = true
			inv.SyncImports++
		case "math/rand":
			if name == "" {
				im.Name = ast.NewIdent("rand")
			}
			im.Path.Value = strconv.Quote(pVrand)
			r.changed = true
			inv.MathRand++
		case "crypto/rand":
			if name == "" {
				im.Name = ast.NewIdent("rand")
			}
			im.Path.Value = strconv.Quote(pVcrand)
			r.changed = true
			inv.CryptoRand++
		case "time":
			r.timeName = "time"
			if name != "" {
				r.timeName = name
			}
		case "github.com/xelaj/go-dry":
			r.dryName = "dry"
			if name != "" {
				r.dryName = name
			}
		}
	}
	// selectors: time.Now, time.Sleep, time.Since, dry.RandomBytes
	usesTime := false
	usesDry := false
	ast.Inspect(f, func(n ast.Node) bool {
		se, ok := n.(*ast.SelectorExpr)
		if !ok {
			return true
		}
		id, ok := se.X.(*ast.Ident)
		if !ok || id.Obj != nil {
			return true
		}
		if r.timeName != "" && id.Name == r.timeName {
			switch se.Sel.Name {
			case "Now", "Sleep", "Since", "NewTicker":
				id.Name = "vclock"
				r.needImp[pVclock] = "vclock"
				r.changed = true
				inv.TimeNow++
				return true
			}
			usesTime = true
		}
		if r.dryName != "" && id.Name == r.dryName {
			if se.Sel.Name == "RandomBytes" {
				id.Name = "vrandbytes"
				se.Sel.Name = "DryRandomBytes"
				r.needImp[pVrand] = "vrandbytes"
				r.changed = true
				inv.DryRandom++
				return true
			}
			usesDry = true
		}
		return true
	})
	if strings.Contains(filepath.ToSlash(rel), "internal/cmd/tlgen/gen/") {
		r.ownGenMaps()
	}
	// function bodies
	for _, d := range f.Decls {
		fd, ok := d.(*ast.FuncDecl)
		if !ok || fd.Body == nil {
			continue
		}
		if fd.Name.Name == "Keys" && fd.Type.Results != nil && len(fd.Type.Results.List) == 1 {
			if at, ok := fd.Type.Results.List[0].Type.(*ast.ArrayType); ok && at.Len == nil {
				if id, ok := at.Elt.(*ast.Ident); ok && id.Name == "int" {
					r.wrapKeysReturns(fd.Body)
				}
			}
		}
		if fd.Name.Name == "NewTCP" && fd.Recv == nil && f.Name.Name == "transport" && len(fd.Type.Params.List) == 1 && len(fd.Type.Params.List[0].Names) == 1 {
			// dial seam: if VerifDial != nil { return VerifDial(cfg) }
			arg := ast.NewIdent(fd.Type.Params.List[0].Names[0].Name)
			seam := &ast.IfStmt{
				Cond: &ast.BinaryExpr{X: ast.NewIdent("VerifDial"), Op: token.NEQ, Y: ast.NewIdent("nil")},
				Body: &ast.BlockStmt{List: []ast.Stmt{&ast.ReturnStmt{Results: []ast.Expr{
					&ast.CallExpr{Fun: ast.NewIdent("VerifDial"), Args: []ast.Expr{arg}}}}}},
			}
			r.done[seam] = true
			fd.Body.List = append([]ast.Stmt{seam}, fd.Body.List...)
			r.changed = true
			inv.DialSeam++
		}
		r.block(fd.Body)
	}
	// package-level func literals
	for _, d := range f.Decls {
		if gd, ok := d.(*ast.GenDecl); ok {
			ast.Inspect(gd, func(n ast.Node) bool {
				if fl, ok := n.(*ast.FuncLit); ok {
					r.block(fl.Body)
					return false
				}
				return true
			})
		}
	}
	if !r.changed {
		return nil, false, nil
	}
	// drop now-unused imports of time / dry
	if r.timeName != "" && !usesTime {
		r.dropImport("time")
	}
	if r.dryName != "" && !usesDry {
		r.dropImport("github.com/xelaj/go-dry")
	}
	var paths []string
	for p := range r.needImp {
		paths = append(paths, p)
	}
	sort.Strings(paths)
	for _, p := range paths {
		r.addImport(p, r.needImp[p])
	}
	var buf bytes.Buffer
	// comments would be misplaced after heavy rewriting; drop free-floating ones but keep build tags
	var keep []*ast.CommentGroup
	for _, cg := range f.Comments {
		if cg.End() < f.Package {
			keep = append(keep, cg)
		}
	}
	f.Comments = keep
	if err := format.Node(&buf, fset, f); err != nil {
		return nil, false, err
	}
	return buf.Bytes(), true, nil
}

func (r *rw) dropImport(path string) {
	for _, d := range r.file.Decls {
		gd, ok := d.(*ast.GenDecl)
		if !ok || gd.Tok != token.IMPORT {
			continue
		}
		var specs []ast.Spec
		for _, s := range gd.Specs {
			is := s.(*ast.ImportSpec)
			p, _ := strconv.Unquote(is.Path.Value)
			if p == path {
				continue
			}
			specs = append(specs, s)
		}
		gd.Specs = specs
	}
	// remove empty import decls
	var decls []ast.Decl
	for _, d := range r.file.Decls {
		if gd, ok := d.(*ast.GenDecl); ok && gd.Tok == token.IMPORT && len(gd.Specs) == 0 {
			continue
		}
		decls = append(decls, d)
	}
	r.file.Decls = decls
}

func (r *rw) addImport(path, name string) {
	spec := &ast.ImportSpec{Name: ast.NewIdent(name), Path: &ast.BasicLit{Kind: token.STRING, Value: strconv.Quote(path)}}
	gd := &ast.GenDecl{Tok: token.IMPORT, Specs: []ast.Spec{spec}}
	r.file.Decls = append([]ast.Decl{gd}, r.file.Decls...)
}

func (r *rw) schedCall(fn string, args ...ast.Expr) *ast.CallExpr {
	r.needImp[pSched] = "vsched"
	r.changed = true
	return &ast.CallExpr{Fun: &ast.SelectorExpr{X: ast.NewIdent("vsched"), Sel: ast.NewIdent(fn)}, Args: args}
}

func (r *rw) schedStmt(fn string, args ...ast.Expr) ast.Stmt {
	s := &ast.ExprStmt{X: r.schedCall(fn, args...)}
	r.done[s] = true
	return s
}

func unparen(e ast.Expr) ast.Expr {
	for {
		p, ok := e.(*ast.ParenExpr)
		if !ok {
			return e
		}
		e = p.X
	}
}

func recvOf(e ast.Expr) ast.Expr {
	if u, ok := unparen(e).(*ast.UnaryExpr); ok && u.Op == token.ARROW {
		return u.X
	}
	return nil
}

func (r *rw) block(b *ast.BlockStmt) {
	if b == nil {
		return
	}
	b.List = r.list(b.List)
}

// exprs visits function literals nested in expressions of a statement.
func (r *rw) exprs(n ast.Node) {
	if n == nil {
		return
	}
	ast.Inspect(n, func(x ast.Node) bool {
		switch v := x.(type) {
		case *ast.FuncLit:
			r.block(v.Body)
			return false
		case *ast.BlockStmt:
			return false // handled by the statement recursion
		}
		return true
	})
}

func (r *rw) pos(n ast.Node) string {
	p := r.fset.Position(n.Pos())
	return fmt.Sprintf("%s:%d", r.rel, p.Line)
}

func (r *rw) list(in []ast.Stmt) []ast.Stmt {
	var out []ast.Stmt
	for _, s := range in {
		out = append(out, r.stmt(s)...)
	}
	return out
}

func (r *rw) stmt(s ast.Stmt) []ast.Stmt {
	if s == nil || r.done[s] {
		return []ast.Stmt{s}
	}
	switch v := s.(type) {
	case *ast.SendStmt:
		r.exprs(v.Value)
		inv.Sends++
		return []ast.Stmt{r.schedStmt("BeforeSend", v.Chan), v, r.schedStmt("AfterSend", v.Chan)}
	case *ast.ExprStmt:
		if ch := recvOf(v.X); ch != nil {
			inv.Recvs++
			return []ast.Stmt{r.schedStmt("BeforeRecv", ch), v, r.schedStmt("AfterRecv", ch)}
		}
		r.exprs(v.X)
		r.leftover(v)
	case *ast.AssignStmt:
		if len(v.Rhs) == 1 {
			if ch := recvOf(v.Rhs[0]); ch != nil {
				inv.Recvs++
				return []ast.Stmt{r.schedStmt("BeforeRecv", ch), v, r.schedStmt("AfterRecv", ch)}
			}
		}
		for _, e := range v.Rhs {
			r.exprs(e)
		}
		r.leftover(v)
	case *ast.DeclStmt:
		if gd, ok := v.Decl.(*ast.GenDecl); ok && gd.Tok == token.VAR && len(gd.Specs) == 1 {
			if vs, ok := gd.Specs[0].(*ast.ValueSpec); ok && len(vs.Values) == 1 {
				if ch := recvOf(vs.Values[0]); ch != nil {
					inv.Recvs++
					return []ast.Stmt{r.schedStmt("BeforeRecv", ch), v, r.schedStmt("AfterRecv", ch)}
				}
			}
		}
		r.exprs(v)
		r.leftover(v)
	case *ast.GoStmt:
		inv.Gos++
		return r.goStmt(v)
	case *ast.DeferStmt:
		r.exprs(v.Call)
		r.leftover(v)
	case *ast.ReturnStmt:
		for _, e := range v.Results {
			r.exprs(e)
		}
		r.leftover(v)
	case *ast.BlockStmt:
		r.block(v)
	case *ast.IfStmt:
		if v.Init != nil {
			r.exprs(v.Init)
			r.leftover(v.Init)
		}
		r.exprs(v.Cond)
		r.block(v.Body)
		if v.Else != nil {
			es := r.stmt(v.Else)
			if len(es) == 1 {
				v.Else = es[0]
			} else {
				v.Else = &ast.BlockStmt{List: es}
			}
		}
	case *ast.ForStmt:
		if v.Init != nil {
			r.exprs(v.Init)
			r.leftover(v.Init)
		}
		if v.Cond != nil {
			r.exprs(v.Cond)
		}
		if v.Post != nil {
			r.exprs(v.Post)
			r.leftover(v.Post)
		}
		r.block(v.Body)
	case *ast.RangeStmt:
		r.exprs(v.X)
		r.block(v.Body)
		if cl, ok := unparen(v.X).(*ast.CompositeLit); ok {
			if _, ok := cl.Type.(*ast.MapType); ok {
				return r.mapRange(v, cl)
			}
		}
	case *ast.SwitchStmt:
		if v.Init != nil {
			r.exprs(v.Init)
			r.leftover(v.Init)
		}
		if v.Tag != nil {
			r.exprs(v.Tag)
		}
		for _, c := range v.Body.List {
			cc := c.(*ast.CaseClause)
			cc.Body = r.list(cc.Body)
		}
	case *ast.TypeSwitchStmt:
		if v.Init != nil {
			r.exprs(v.Init)
			r.leftover(v.Init)
		}
		r.exprs(v.Assign)
		r.leftover(v.Assign)
		for _, c := range v.Body.List {
			cc := c.(*ast.CaseClause)
			cc.Body = r.list(cc.Body)
		}
	case *ast.LabeledStmt:
		inner := r.stmt(v.Stmt)
		if len(inner) == 1 {
			v.Stmt = inner[0]
		} else {
			// keep the label on an empty statement in front is wrong for loops; only bracketed
			// simple statements get here, so a block is fine.
			v.Stmt = &ast.BlockStmt{List: inner}
		}
	case *ast.SelectStmt:
		return r.selectStmt(v)
	}
	return []ast.Stmt{s}
}

// leftover reports receive expressions that the statement-level rewrite did not bracket.
func (r *rw) leftover(n ast.Node) {
	ast.Inspect(n, func(x ast.Node) bool {
		switch v := x.(type) {
		case *ast.FuncLit, *ast.BlockStmt:
			return false
		case *ast.UnaryExpr:
			if v.Op == token.ARROW {
				inv.Unhooked = append(inv.Unhooked, "recv in expression at "+r.pos(v))
			}
		}
		return true
	})
}

func (r *rw) goStmt(g *ast.GoStmt) []ast.Stmt {
	call := g.Call
	r.exprs(call)
	var pre []ast.Stmt
	if _, isLit := call.Fun.(*ast.FuncLit); !isLit || len(call.Args) > 0 {
		if call.Ellipsis.IsValid() {
			fail("%s: go statement with variadic spread is not supported", r.pos(g))
		}
		// evaluate arguments now, as the go statement does
		for i, a := range call.Args {
			r.tmp++
			name := fmt.Sprintf("vgo%d_%d", r.tmp, i)
			as := &ast.AssignStmt{Lhs: []ast.Expr{ast.NewIdent(name)}, Tok: token.DEFINE, Rhs: []ast.Expr{a}}
			r.done[as] = true
			pre = append(pre, as)
			call.Args[i] = ast.NewIdent(name)
		}
	}
	body := &ast.ExprStmt{X: call}
	r.done[body] = true
	lit := &ast.FuncLit{Type: &ast.FuncType{Params: &ast.FieldList{}}, Body: &ast.BlockStmt{List: []ast.Stmt{body}}}
	st := r.schedStmt("GoFunc", lit)
	if len(pre) == 0 {
		return []ast.Stmt{st}
	}
	return []ast.Stmt{&ast.BlockStmt{List: append(pre, st)}}
}

func (r *rw) selectStmt(s *ast.SelectStmt) []ast.Stmt {
	hasDefault := false
	for _, c := range s.Body.List {
		cc := c.(*ast.CommClause)
		if cc.Comm == nil {
			hasDefault = true
		}
		cc.Body = r.list(cc.Body)
	}
	if hasDefault {
		inv.SelectDefaults++
		for _, c := range s.Body.List {
			cc := c.(*ast.CommClause)
			if cc.Comm != nil {
				if _, isSend := cc.Comm.(*ast.SendStmt); isSend {
					inv.Unhooked = append(inv.Unhooked, "send case in select-with-default at "+r.pos(cc))
				} else if ch := commRecvChan(cc.Comm); ch != nil {
					// a receive from a data channel would always fall to default under the scheduler
					_ = ch
				}
			}
		}
		return []ast.Stmt{r.schedStmt("Yield", &ast.BasicLit{Kind: token.STRING, Value: strconv.Quote("select-default")}), s}
	}
	inv.Selects++
	var chans []ast.Expr
	sw := &ast.SwitchStmt{Body: &ast.BlockStmt{}}
	for i, c := range s.Body.List {
		cc := c.(*ast.CommClause)
		ch := commRecvChan(cc.Comm)
		if ch == nil {
			fail("%s: select case that is not a receive is not supported by the scheduler shim", r.pos(cc))
		}
		chans = append(chans, ch)
		r.done[cc.Comm] = true
		body := append([]ast.Stmt{cc.Comm, r.schedStmt("AfterRecv", ch)}, cc.Body...)
		sw.Body.List = append(sw.Body.List, &ast.CaseClause{
			List: []ast.Expr{&ast.BasicLit{Kind: token.INT, Value: strconv.Itoa(i)}}, Body: body})
	}
	sw.Tag = r.schedCall("Select", chans...)
	r.done[sw] = true
	return []ast.Stmt{sw}
}

func commRecvChan(s ast.Stmt) ast.Expr {
	switch v := s.(type) {
	case *ast.ExprStmt:
		return recvOf(v.X)
	case *ast.AssignStmt:
		if len(v.Rhs) == 1 {
			return recvOf(v.Rhs[0])
		}
	}
	return nil
}

// mapRange turns `for k, v := range map[K]V{...} { body }` into iteration in an
// order chosen through sched.MapOrder (identity outside owned runs).
func (r *rw) mapRange(rs *ast.RangeStmt, cl *ast.CompositeLit) []ast.Stmt {
	if rs.Tok != token.DEFINE || rs.Key == nil {
		return []ast.Stmt{rs}
	}
	inv.MapRanges++
	r.tmp++
	mname := fmt.Sprintf("vmap%d", r.tmp)
	kname := fmt.Sprintf("vkeys%d", r.tmp)
	mt := cl.Type.(*ast.MapType)
	// vmapN := <literal>
	as := &ast.AssignStmt{Lhs: []ast.Expr{ast.NewIdent(mname)}, Tok: token.DEFINE, Rhs: []ast.Expr{cl}}
	// vkeysN := make([]K, 0); for k := range vmapN { vkeysN = append(vkeysN, k) }
	mk := &ast.AssignStmt{Lhs: []ast.Expr{ast.NewIdent(kname)}, Tok: token.DEFINE, Rhs: []ast.Expr{
		&ast.CallExpr{Fun: ast.NewIdent("make"), Args: []ast.Expr{&ast.ArrayType{Elt: mt.Key}, &ast.BasicLit{Kind: token.INT, Value: "0"}}}}}
	coll := &ast.RangeStmt{Key: ast.NewIdent("vk"), Tok: token.DEFINE, X: ast.NewIdent(mname), Body: &ast.BlockStmt{List: []ast.Stmt{
		&ast.AssignStmt{Lhs: []ast.Expr{ast.NewIdent(kname)}, Tok: token.ASSIGN, Rhs: []ast.Expr{
			&ast.CallExpr{Fun: ast.NewIdent("append"), Args: []ast.Expr{ast.NewIdent(kname), ast.NewIdent("vk")}}}}}}}
	ord := r.schedStmt("OrderKeys", ast.NewIdent(kname))
	// for _, k := range vkeysN { v := vmapN[k]; body }
	var pre []ast.Stmt
	if rs.Value != nil {
		if id, ok := rs.Value.(*ast.Ident); !ok || id.Name != "_" {
			pre = append(pre, &ast.AssignStmt{Lhs: []ast.Expr{rs.Value}, Tok: token.DEFINE, Rhs: []ast.Expr{
				&ast.IndexExpr{X: ast.NewIdent(mname), Index: rs.Key}}})
		}
	}
	loop := &ast.RangeStmt{Key: ast.NewIdent("_"), Value: rs.Key, Tok: token.DEFINE, X: ast.NewIdent(kname),
		Body: &ast.BlockStmt{List: append(pre, rs.Body.List...)}}
	for _, s := range []ast.Stmt{as, mk, coll, loop} {
		r.done[s] = true
	}
	r.changed = true
	return []ast.Stmt{&ast.BlockStmt{List: []ast.Stmt{as, mk, coll, ord, loop}}}
}

func (r *rw) wrapKeysReturns(b *ast.BlockStmt) {
	ast.Inspect(b, func(n ast.Node) bool {
		switch v := n.(type) {
		case *ast.FuncLit:
			return false
		case *ast.ReturnStmt:
			if len(v.Results) == 1 {
				v.Results[0] = r.schedCall("OrderInts", v.Results[0])
				inv.KeysOrder++
			}
		}
		return true
	})
}

// ---- generator map order -------------------------------------------------------------------------

// genMapKeyTypes: names (struct fields and local variables of package gen) declared with a map type,
// with the source text of their key type. Collected over the whole package directory once.
var genMapKeyTypes map[string]ast.Expr

func collectGenMaps(dir string) {
	genMapKeyTypes = map[string]ast.Expr{}
	fset := token.NewFileSet()
	pkgs, err := parser.ParseDir(fset, dir, func(fi os.FileInfo) bool { return !strings.HasSuffix(fi.Name(), "_test.go") }, 0)
	if err != nil {
		return
	}
	for _, pkg := range pkgs {
		for _, f := range pkg.Files {
			ast.Inspect(f, func(n ast.Node) bool {
				switch v := n.(type) {
				case *ast.Field:
					if mt, ok := v.Type.(*ast.MapType); ok {
						for _, nm := range v.Names {
							genMapKeyTypes[nm.Name] = mt.Key
						}
					}
				case *ast.AssignStmt:
					for i, rhs := range v.Rhs {
						if call, ok := rhs.(*ast.CallExpr); ok && len(call.Args) >= 1 {
							if id, ok := call.Fun.(*ast.Ident); ok && id.Name == "make" {
								if mt, ok := call.Args[0].(*ast.MapType); ok && i < len(v.Lhs) {
									if l, ok := v.Lhs[i].(*ast.Ident); ok {
										genMapKeyTypes[l.Name] = mt.Key
									}
								}
							}
						}
						if cl, ok := rhs.(*ast.CompositeLit); ok {
							if mt, ok := cl.Type.(*ast.MapType); ok && i < len(v.Lhs) {
								if l, ok := v.Lhs[i].(*ast.Ident); ok {
									genMapKeyTypes[l.Name] = mt.Key
								}
							}
						}
					}
				case *ast.ValueSpec:
					if mt, ok := v.Type.(*ast.MapType); ok {
						for _, nm := range v.Names {
							genMapKeyTypes[nm.Name] = mt.Key
						}
					}
				}
				return true
			})
		}
	}
}

func lastName(e ast.Expr) string {
	switch v := e.(type) {
	case *ast.Ident:
		return v.Name
	case *ast.SelectorExpr:
		return v.Sel.Name
	case *ast.ParenExpr:
		return lastName(v.X)
	}
	return ""
}

// ownGenMaps rewrites `for k, v := range M` (M a known map of package gen) into iteration over
// zvorder.Keys(M), so that the explorer owns the order.
func (r *rw) ownGenMaps() {
	const pOrder = "github.com/xelaj/mtproto/internal/cmd/tlgen/zvorder"
	ast.Inspect(r.file, func(n ast.Node) bool {
		rs, ok := n.(*ast.RangeStmt)
		if !ok || rs.Tok != token.DEFINE && rs.Key != nil {
			return true
		}
		keyT, known := genMapKeyTypes[lastName(rs.X)]
		if !known {
			return true
		}
		r.tmp++
		kv := fmt.Sprintf("vmk%d", r.tmp)
		var pre []ast.Stmt
		keyName := fmt.Sprintf("vmkey%d", r.tmp)
		if id, ok := rs.Key.(*ast.Ident); ok && rs.Key != nil && id.Name != "_" {
			keyName = id.Name
		}
		pre = append(pre, &ast.AssignStmt{Lhs: []ast.Expr{ast.NewIdent(keyName)}, Tok: token.DEFINE,
			Rhs: []ast.Expr{&ast.TypeAssertExpr{X: ast.NewIdent(kv), Type: keyT}}})
		pre = append(pre, &ast.AssignStmt{Lhs: []ast.Expr{ast.NewIdent("_")}, Tok: token.ASSIGN, Rhs: []ast.Expr{ast.NewIdent(keyName)}})
		if rs.Value != nil {
			if id, ok := rs.Value.(*ast.Ident); !ok || id.Name != "_" {
				pre = append(pre, &ast.AssignStmt{Lhs: []ast.Expr{rs.Value}, Tok: token.DEFINE,
					Rhs: []ast.Expr{&ast.IndexExpr{X: rs.X, Index: ast.NewIdent(keyName)}}})
			}
		}
		rs.Body.List = append(pre, rs.Body.List...)
		rs.Key, rs.Value = ast.NewIdent("_"), ast.NewIdent(kv)
		rs.Tok = token.DEFINE
		rs.X = &ast.CallExpr{Fun: &ast.SelectorExpr{X: ast.NewIdent("zvorder"), Sel: ast.NewIdent("Keys")}, Args: []ast.Expr{rs.X}}
		r.needImp[pOrder] = "zvorder"
		r.changed = true
		inv.MapRanges++
		return true
	})
}
