// C10 — the client's outgoing stream obeys msg_id, seq_no and acknowledgement rules.
package main

import (
	"fmt"
	"sort"
	"strings"
	"time"

	"github.com/xelaj/mtproto/zverif/ref/rpcsrv"
	"github.com/xelaj/mtproto/zverif/ref/tlw"
	"github.com/xelaj/mtproto/zverif/sched"
	"github.com/xelaj/mtproto/zverif/sess"
	"github.com/xelaj/mtproto/zverif/vr"
)

func update(tag int32) []byte { return (&tlw.W{}).U32(rpcsrv.ResID).I32(tag).B }
func srvAck() []byte          { return (&tlw.W{}).U32(0x62d6b459).VecI64([]int64{1}).B }

func scenarios() []*sess.Scenario {
	all := rpcsrv.Options{Reorder: true, Container: true, Gzip: false, IDAtGeneration: true}
	obj := func(t int32) sess.Call { return sess.Call{Tag: t, Kind: rpcsrv.KObj} }
	return []*sess.Scenario{
		{Name: "S1-2callers", Salt: 5, Opt: all, Callers: [][]sess.Call{{obj(1)}, {obj(2)}}},
		// a coarse clock: every reading within the scenario returns the same instant
		{Name: "S4-2callers-2ops-clock-does-not-advance", Salt: 5, Opt: all, ClockFrozen: true, Callers: [][]sess.Call{{obj(1), obj(3)}, {obj(2)}}},
		{Name: "S2-3callers", Salt: 5, Opt: all, Callers: [][]sess.Call{{obj(1)}, {obj(2)}, {obj(3)}}},
		{Name: "S3-2callers-2ops", Salt: 5, Opt: all, Callers: [][]sess.Call{{obj(1), obj(3)}, {obj(2), obj(4)}}},
		{Name: "A1-two-updates-while-sending", Salt: 5, Opt: all, Handler: true, Callers: [][]sess.Call{{obj(1), obj(2)}},
			Setup: func(w *sess.World) {
				w.Srv.Queue = append(w.Srv.Queue, &rpcsrv.Out{Body: update(901), Content: true, Label: "update901", Kind: -1},
					&rpcsrv.Out{Body: update(902), Content: true, Label: "update902", Kind: -1})
			}},
		{Name: "A2-mixed-container", Salt: 5, Opt: all, Handler: true, Callers: [][]sess.Call{{obj(1)}},
			Setup: func(w *sess.World) {
				w.Srv.Queue = append(w.Srv.Queue, &rpcsrv.Out{Body: update(903), Content: true, Label: "update903", Kind: -1},
					&rpcsrv.Out{Body: srvAck(), Content: false, Label: "server-msgs_ack", Kind: -1})
			}},
		// the server repeats a content-related message under the same msg_id (as it does when it saw no
		// acknowledgement): alone, and inside a container next to a new message
		{Name: "A4-server-repeats-a-message", Salt: 5, Opt: all, Handler: true, Callers: [][]sess.Call{{obj(1)}},
			Setup: func(w *sess.World) {
				const again = int64(1600000000)<<32 | 0x00f00001
				w.Srv.Queue = append(w.Srv.Queue, &rpcsrv.Out{Body: update(906), Content: true, Label: "update906", Kind: -1, ID: again},
					&rpcsrv.Out{Body: update(906), Content: true, Label: "update906-again", Kind: -1, ID: again},
					&rpcsrv.Out{Body: update(907), Content: true, Label: "update907", Kind: -1})
			}},
		// the server closes the connection after the first answer; the client reconnects within the same session
		// (same session id), so msg_id and seq_no go on from where they were. Only the stream rules are judged
		// here: acknowledgements written into the dying connection may be lost with it
		{Name: "R1-stream-goes-on-after-reconnect", Salt: 5, Opt: all, Callers: [][]sess.Call{{obj(1), {Tag: 2, Kind: rpcsrv.KObj, MayFailOnConnLoss: true},
			{Tag: 3, Kind: rpcsrv.KObj, After: func(x *sess.World) bool {
				return len(x.Srv.Queue) == 0 && len(x.Net.Conns) >= 2 && x.Net.Conns[len(x.Net.Conns)-1].Announced() && x.ReaderIdle()
			}}, obj(4)}},
			Setup: func(w *sess.World) {
				w.Srv.AfterResult = func(s *rpcsrv.Server, tag int32) {
					if tag == 1 {
						s.Queue = append(s.Queue, &rpcsrv.Out{Label: "close", Kind: -1, Lazy: func() rpcsrv.Event { return rpcsrv.Event{Kind: rpcsrv.EvClose, Label: "close"} }})
					}
				}
			}},
		// what a server sends first in a session: an acknowledgement, new_session_created and a pong, the last two
		// content-related, alone or grouped in a container in any order - each content-related one is acknowledged
		{Name: "A5-first-answer-of-a-session-ack-newsession-pong", Salt: 5, Opt: all, Handler: true, Callers: [][]sess.Call{{obj(1)}},
			Setup: func(w *sess.World) {
				w.Srv.Queue = append(w.Srv.Queue, &rpcsrv.Out{Body: srvAck(), Content: false, Label: "server-msgs_ack", Kind: -1},
					&rpcsrv.Out{Body: (&tlw.W{}).U32(0x9ec20908).I64(int64(1600000000) << 32).I64(0x1122334455).I64(5).B, Content: true, Label: "new_session_created", Kind: -1},
					&rpcsrv.Out{Body: (&tlw.W{}).U32(0x347773c5).I64(int64(1600000000)<<32 | 8).I64(7).B, Content: true, Label: "pong", Kind: -1})
			}},
		// the server complains about an id (bad_msg_notification 16 "msg_id too low", 17 "too high", 32/33 about the
		// seq_no): whatever the client makes of it, what it writes afterwards is still a conformant stream
		{Name: "A6-bad-msg-notifications-then-more-requests", Salt: 5, Opt: all, Handler: true, Callers: [][]sess.Call{{obj(1), obj(2)}, {obj(3)}},
			Setup: func(w *sess.World) {
				for _, code := range []int32{16, 17, 32, 33} {
					w.Srv.Queue = append(w.Srv.Queue, &rpcsrv.Out{Body: (&tlw.W{}).U32(0xa7eff811).I64(int64(1599999000) << 32).I32(1).I32(code).B, Content: false, Label: fmt.Sprintf("bad_msg_notification(%d)", code), Kind: -1})
				}
			}},
		// the keep-alive timer fires at a moment the explorer chooses (and the clock jumps by the timer's period):
		// the ping of the pinging goroutine is one more message of the stream, its pong one more to acknowledge
		{Name: "P1-keepalive-ping-among-callers", Salt: 5, Opt: all, Ticks: 1, Callers: [][]sess.Call{{obj(1), obj(3)}, {obj(2)}}},
		// content-related messages whose processing fails (result for an unknown request) are still received
		// messages: they, and what follows them in a container, must be acknowledged
		{Name: "A3-unprocessable-among-updates", Salt: 5, Opt: all, Handler: true, Callers: [][]sess.Call{{obj(1)}},
			Setup: func(w *sess.World) {
				w.Srv.Queue = append(w.Srv.Queue, &rpcsrv.Out{Body: update(904), Content: true, Label: "update904", Kind: -1},
					&rpcsrv.Out{Body: rpcsrv.ResultBody(0x5f5e0fff00000000, 77, rpcsrv.KObj, false), Content: true, Label: "result-for-unknown-request", Kind: -1},
					&rpcsrv.Out{Body: update(905), Content: true, Label: "update905", Kind: -1})
			}},
	}
}

func main() {
	run := vr.New("C10", "model_checking")
	defer run.Recover()
	run.Rule("executions = complete schedules of callers, receive loop and acknowledgement senders x server choices (answer order, containers of <=3 members in any order, unsolicited content-related and service messages), depth-first with delay bound D and server-deviation bound E; oracle = the reference server's own acceptance rules applied to every frame in arrival order + ack completeness at quiescence; non-trivial = at least 2 encrypted frames reached the server")
	run.Assume("virtual clock: every reading is 1 microsecond after the previous one, except in scenario S4 where it does not advance at all",
		"cooperative scheduler; every Conn.Write is a scheduling point so a too-short critical section shows up as interleaved frames or an id/seq inversion")
	D, E := 2, 1
	budget := 5 * time.Minute
	if run.Thorough() {
		D, E = 3, 2
		budget = 90 * time.Minute
	}
	run.Set("delay_bound", D)
	run.Set("server_deviation_bound", E)
	run.Sample(map[string]any{"scenario": "S1-2callers", "choices": []int{0, 0, 0, 0, 0, 0, 0, 0, 0, 0, 0, 0, 0, 1}, "meaning": "caller0 is delayed after taking its msg_id; caller1 writes first"})
	(&sess.XSpec{Run: run, Scenarios: scenarios(), Budget: budget, FreeSet: run.ID,
		Bounds:     func(*sess.Scenario) sched.Bounds { return sched.Bounds{Preemptions: -1, Delays: D, EnvDev: E} },
		Judge:      judge,
		NonTrivial: func(w *sess.World) bool { return len(w.Srv.Frames) >= 2 },
	}).Main()
}

func judge(run *vr.Run, sc *sess.Scenario, w *sess.World, choices []int) {
	if !sess.JudgeAlive(run, sc, w, choices) {
		return
	}
	rep := sess.Replay(sc, choices)
	for _, p := range w.Srv.Problems {
		run.Violation("stream|"+vr.MsgClass(p), fmt.Sprintf("%s: %s (frames so far: %d)", sc.Name, p, len(w.Srv.Frames)), rep)
	}
	for _, c := range w.Net.Conns {
		if c.BadStream != "" {
			run.Violation("stream|bad-framing", sc.Name+": "+c.BadStream, rep)
		}
	}
	if strings.HasPrefix(sc.Name, "R1-") {
		return // stream rules only (above)
	}
	if len(w.Stalled()) == 0 {
		// quiescent: every content-related server message must have been acknowledged, and nothing else
		var missing, extra []int64
		sent := map[int64]bool{}
		times := map[int64]int{}
		for _, id := range w.Srv.Content {
			sent[id] = true
			times[id]++
		}
		for id, n := range times {
			// a message the server sent again under the same msg_id (it saw no acknowledgement) is a received
			// message again: it needs an acknowledgement each time
			if w.Srv.AckCount[id] < n {
				missing = append(missing, id)
			}
		}
		sort.Slice(missing, func(i, j int) bool { return missing[i] < missing[j] })
		// acknowledging a service message is not forbidden by the statement; naming an id the server never
		// used at all is a wrong acknowledgement
		for id := range w.Srv.AckedIDs {
			if !sent[id] && !w.Srv.AllSent[id] {
				extra = append(extra, id)
			}
		}
		sort.Slice(extra, func(i, j int) bool { return extra[i] < extra[j] })
		if len(missing) > 0 {
			inContainer := false
			for _, e := range w.Srv.Emitted {
				if len(e) > 9 && e[:9] == "container" {
					inContainer = true
				}
			}
			run.Violation(fmt.Sprintf("ack|missing|container=%v", inContainer), fmt.Sprintf("%s: %d content-related server message(s) never acknowledged: %x; server emitted %v", sc.Name, len(missing), missing, w.Srv.Emitted), rep)
		}
		if len(extra) > 0 {
			run.Violation("ack|spurious", fmt.Sprintf("%s: msgs_ack names ids the server never used: %x; emitted %v", sc.Name, extra, w.Srv.Emitted), rep)
		}
	} else {
		sess.JudgeCalls(run, sc, w, choices)
	}
}
