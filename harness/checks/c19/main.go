// C19 — secrets used for key agreement come from the OS cryptographic random source.
// Two-run oracle: with every reproducible input pinned to the same values (state of the global math/rand
// generator, the clock), a secret that comes out identical in two runs is a function of reproducible inputs.
package main

import (
	"bytes"
	"fmt"
	"math/big"
	mrand "math/rand"
	"strings"

	"github.com/xelaj/mtproto"
	"github.com/xelaj/mtproto/telegram"
	"github.com/xelaj/mtproto/zverif/hs"
	"github.com/xelaj/mtproto/zverif/ref/authsrv"
	"github.com/xelaj/mtproto/zverif/sess"
	"github.com/xelaj/mtproto/zverif/vclock"
	"github.com/xelaj/mtproto/zverif/vcrand"
	"github.com/xelaj/mtproto/zverif/vr"
)

type secrets map[string][]byte

// failAt > 0: the failAt-th read of the OS random source fails during the scenario (fault dimension)
var failAt int64

// scriptAt > 0: the scriptAt-th read of the OS random source returns scriptByte repeated (a degenerate value: the
// exponent 0, or one above the bound that has to be drawn again); whatever the client does then, no secret may
// come from a reproducible generator
var scriptAt int64
var scriptByte byte

// keyExchange runs one exchange under the scheduler (virtual clock = the same in every run) with the
// process-global math/rand seeded with s; crypto/rand is the real one.
func keyExchange(s int64, clock int64, extraClient bool) (secrets, string) {
	mrand.Seed(s)
	sc := hs.Scenario("c19", hs.Base(), 0)
	sc.Callers = nil
	sc.NoOwnRandom = true
	sc.ClockStart = clock
	if extraClient {
		sc.Setup = func(w *sess.World) {
			// creating another client object first must not change where the secrets come from
			mtproto.NewMTProto(mtproto.Config{SessionStorage: &sess.MemStore{}, ServerHost: "x:1"})
		}
	}
	vcrand.FailAt = failAt
	vcrand.ScriptAt, vcrand.Script = scriptAt, scriptByte
	w := sess.Run(sc, nil, false)
	vcrand.FailAt, vcrand.ScriptAt = 0, 0
	if (failAt > 0 || scriptAt > 0) && (w.ConnErr != nil || w.ConnPanic != "" || !w.ConnReturned || w.Auth == nil || w.Auth.GB == nil || !w.Auth.Done) {
		return secrets{}, "" // refusing to go on without the OS source / with a degenerate value from it is fine
	}
	if w.Auth == nil || w.Auth.GB == nil || w.ConnErr != nil || w.ConnPanic != "" {
		return nil, fmt.Sprintf("exchange failed: err=%v panic=%s problems=%v", w.ConnErr, w.ConnPanic, w.Auth.Problems)
	}
	return secrets{"nonce": w.Auth.Nonce, "new_nonce": w.Auth.NewNonce, "dh_exponent(g_b)": authsrv.Fixed(w.Auth.GB, 256)}, ""
}

// secureRandom: what the server sends along with the challenge (account.password.secure_random); it is chosen
// by the server, so nothing derived from it alone is a secret
var secureRandom []byte

func srpWithServerRandom(n int) func(s int64, clock int64, extraClient bool) (secrets, string) {
	return func(s int64, clock int64, extraClient bool) (secrets, string) {
		secureRandom = make([]byte, n)
		for i := range secureRandom {
			secureRandom[i] = byte(i*29 + 3)
		}
		defer func() { secureRandom = nil }()
		return srp(s, clock, extraClient)
	}
}

// fromScript: is v exactly what the scripted OS read (scriptByte repeated) turns into for this secret?
func fromScript(name string, v []byte) bool {
	all := func(n int) []byte { return bytes.Repeat([]byte{scriptByte}, n) }
	p := hs.HexBig(hs.TelegramPrime)
	exp := new(big.Int).SetBytes(all(256))
	switch name {
	case "nonce", "new_nonce":
		return bytes.Equal(v, all(len(v)))
	case "dh_exponent(g_b)", "srp_ephemeral(A)":
		return new(big.Int).SetBytes(v).Cmp(new(big.Int).Exp(big.NewInt(3), exp, p)) == 0
	}
	return false
}

func srp(s int64, clock int64, extraClient bool) (secrets, string) {
	mrand.Seed(s)
	vclock.Pin(clock)
	defer vclock.Pin(0)
	if extraClient {
		mtproto.NewMTProto(mtproto.Config{SessionStorage: &sess.MemStore{}, ServerHost: "x:1"})
	}
	p := hs.HexBig(hs.TelegramPrime)
	B := make([]byte, 256)
	B[0], B[255] = 0x40, 7
	vcrand.FailAt = failAt
	vcrand.ScriptAt, vcrand.Script = scriptAt, scriptByte
	defer func() { vcrand.FailAt, vcrand.ScriptAt = 0, 0 }()
	var res telegram.InputCheckPasswordSRP
	var err error
	if p, _, _ := vr.Try(func() {
		res, err = telegram.GetInputCheckPassword("pw", &telegram.AccountPassword{SRPB: B, SRPID: 1, SecureRandom: secureRandom,
			CurrentAlgo: &telegram.PasswordKdfAlgoSHA256SHA256PBKDF2HMACSHA512iter100000SHA256ModPow{Salt1: []byte("s1"), Salt2: []byte("s2"), G: 3, P: p.Bytes()}})
	}); p && (failAt > 0 || scriptAt > 0) {
		return secrets{}, ""
	}
	if err != nil {
		if failAt > 0 || scriptAt > 0 {
			return secrets{}, ""
		}
		return nil, err.Error()
	}
	o, ok := res.(*telegram.InputCheckPasswordSRPObj)
	if !ok {
		return nil, fmt.Sprintf("answer %T", res)
	}
	return secrets{"srp_ephemeral(A)": o.A}, ""
}

func main() {
	run := vr.New("C19", "exploration")
	defer run.Recover()
	run.Rule("environment alphabet: global math/rand seed in {1, 2, 0x5eed} x pinned clock in {T0, T0+1s} x scenario {key exchange, key exchange after creating another client, SRP answer, SRP answer after creating a client, SRP answer to a challenge that carries 8 / 256 bytes of server-chosen secure_random} x fault {none, the 1st / 2nd / 3rd read of the OS random source fails, or returns 00..00, or returns ff..ff}; each environment is run twice and all runs are compared pairwise; a secret that repeats is a violation, and so is any 8-byte window of a nonce that occurs twice anywhere in the 12 consecutive exchanges of a group; non-trivial = distinct (scenario, environment, secret) comparison")
	run.Assume("bytes from the OS source differ between runs with probability 1 - 2^-128, so a repeat is a reproducible derivation, not chance",
		"LIMIT: this decides the property for the draw sites these drivers execute and for the reproducible inputs that are pinned (global math/rand state, the clock); a generator seeded from an input that is not pinned (pid, hostname) would pass, and paths no driver executes are not covered - provenance on all paths is a data-flow question outside this technique")
	seeds := []int64{1, 2, 0x5eed}
	clocks := []int64{1600000000 * 1e9, 1600000001 * 1e9}
	type obs struct {
		env string
		sec secrets
	}
	for _, scn := range []struct {
		name string
		f    func(s, c int64, extra bool) (secrets, string)
		xtra bool
	}{{"key-exchange", keyExchange, false}, {"key-exchange-after-new-client", keyExchange, true}, {"srp", srp, false}, {"srp-after-new-client", srp, true},
		{"srp-with-8-byte-secure_random-from-the-server", srpWithServerRandom(8), false}, {"srp-with-256-byte-secure_random-from-the-server", srpWithServerRandom(256), false}} {
		for _, fa := range []int64{0, 1, 2, 3, 101, 102, 103, 201, 202, 203} {
			failAt, scriptAt = 0, 0
			switch {
			case fa >= 200:
				scriptAt, scriptByte = fa-200, 0xff // the n-th read returns ff..ff
			case fa >= 100:
				scriptAt, scriptByte = fa-100, 0x00 // the n-th read returns 00..00
			default:
				failAt = fa
			}
			if fa > 0 && scn.xtra {
				continue
			}
			var all []obs
			for _, s := range seeds {
				for _, c := range clocks {
					for rep := 0; rep < 2; rep++ {
						sec, bad := scn.f(s, c, scn.xtra)
						if bad != "" {
							run.Violation("scenario-fails|"+scn.name, scn.name+": "+bad, nil)
							continue
						}
						all = append(all, obs{fmt.Sprintf("seed=%d clock=%d run=%d fail=%d", s, c/1e9, rep, fa), sec})
					}
				}
			}
			// pieces: every 8-byte window of every nonce, over all runs of this group (which follow each other in
			// one process, so state kept between exchanges shows): no window may occur twice anywhere
			type where struct {
				run, off int
				name     string
			}
			seenWin := map[string]where{}
			for i, o := range all {
				for _, name := range []string{"nonce", "new_nonce"} {
					v := o.sec[name]
					for off := 0; off+8 <= len(v); off++ {
						if scriptAt > 0 && fromScript(name, v) {
							break
						}
						k := string(v[off : off+8])
						run.Eval(fmt.Sprintf("%s|fail=%d|window %s[%d:%d] of run %d", scn.name, fa, name, off, off+8, i), true)
						if w, dup := seenWin[k]; dup {
							run.Violation(fmt.Sprintf("repeats-partially|%s|%s", scn.name, name),
								fmt.Sprintf("%s: bytes %d..%d of %s in exchange #%d [%s] equal bytes %d..%d of %s in exchange #%d [%s] (%x): part of the secret is not fresh from the OS random source",
									scn.name, off, off+8, name, i, o.env, w.off, w.off+8, w.name, w.run, all[w.run].env, v[off:off+8]), map[string]any{"scenario": scn.name, "secret": name})
						} else {
							seenWin[k] = where{i, off, name}
						}
					}
				}
			}
			for i := 0; i < len(all); i++ {
				for j := i + 1; j < len(all); j++ {
					for name, v := range all[i].sec {
						if scriptAt > 0 && fromScript(name, v) {
							continue // this value is what the scripted OS read itself gives: reproducible by construction
						}
						id := fmt.Sprintf("%s|%s|%s vs %s", scn.name, name, all[i].env, all[j].env)
						run.Eval(id, true)
						if bytes.Equal(v, all[j].sec[name]) {
							same := "same-seed-same-clock"
							ei, ej := strings.Fields(all[i].env), strings.Fields(all[j].env)
							switch {
							case ei[0] != ej[0] && ei[1] == ej[1]:
								same = "different-seed-same-clock"
							case ei[0] == ej[0] && ei[1] != ej[1]:
								same = "same-seed-different-clock"
							case ei[0] != ej[0]:
								same = "different-seed-different-clock"
							}
							switch {
							case fa >= 200:
								same += fmt.Sprintf("|os-source-read-%d-returns-ff", fa-200)
							case fa >= 100:
								same += fmt.Sprintf("|os-source-read-%d-returns-00", fa-100)
							case fa > 0:
								same += fmt.Sprintf("|os-source-read-%d-fails", fa)
							}
							run.Violation(fmt.Sprintf("repeats|%s|%s|%s", scn.name, name, same),
								fmt.Sprintf("%s: %s is identical (%x...) in two runs [%s] and [%s]: it is a function of reproducible inputs, not of the OS random source", scn.name, name, v[:8], all[i].env, all[j].env), map[string]any{"scenario": scn.name, "secret": name})
						}
					}
				}
			}
		}
		failAt, scriptAt = 0, 0
	}
	run.Sample(map[string]any{"scenario": "key-exchange", "environment": "math/rand seeded with 1, clock pinned to T0", "compared": "nonce, new_nonce, g_b of run 0 vs run 1"})
	run.Finish()
}
