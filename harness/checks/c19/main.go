// C19 — secrets used for key agreement come from the OS cryptographic random source.
// Two-run oracle: with every reproducible input pinned to the same values (state of the global math/rand
// generator, the clock), a secret that comes out identical in two runs is a function of reproducible inputs.
package main

import (
	"bytes"
	"encoding/hex"
	"encoding/json"
	"fmt"
	"github.com/xelaj/mtproto/internal/encoding/tl"
	rmath "github.com/xelaj/mtproto/internal/math"
	"github.com/xelaj/mtproto/zverif/freepass"
	"github.com/xelaj/mtproto/zverif/sched"
	"math/big"
	mrand "math/rand"
	"os"
	"os/exec"
	"sort"
	"strconv"
	"strings"
	"sync"
	"time"

	"github.com/xelaj/mtproto"
	"github.com/xelaj/mtproto/telegram"
	"github.com/xelaj/mtproto/zverif/hs"
	"github.com/xelaj/mtproto/zverif/ref/authsrv"
	"github.com/xelaj/mtproto/zverif/sess"
	"github.com/xelaj/mtproto/zverif/vclock"
	"github.com/xelaj/mtproto/zverif/vcrand"
	"github.com/xelaj/mtproto/zverif/vr"
)

type secrets map[string][]byte

// failAt > 0: the failAt-th read of the OS random source fails during the scenario (fault dimension)
var failAt int64

// scriptAt > 0: the scriptAt-th read of the OS random source returns scriptByte repeated (a degenerate value: the
// exponent 0, or one above the bound that has to be drawn again); whatever the client does then, no secret may
// come from a reproducible generator
var scriptAt int64
var scriptByte byte

// keyExchange runs one exchange under the scheduler (virtual clock = the same in every run) with the
// process-global math/rand seeded with s; crypto/rand is the real one.
func keyExchange(s int64, clock int64, extraClient bool) (secrets, string) {
	mrand.Seed(s)
	sc := hs.Scenario("c19", hs.Base(), 0)
	sc.Callers = nil
	sc.NoOwnRandom = true
	sc.ClockStart = clock
	if extraClient {
		sc.Setup = func(w *sess.World) {
			// creating another client object first must not change where the secrets come from
			mtproto.NewMTProto(mtproto.Config{SessionStorage: &sess.MemStore{}, ServerHost: "x:1"})
		}
	}
	vcrand.FailAt = failAt
	vcrand.ScriptAt, vcrand.Script = scriptAt, scriptByte
	w := sess.Run(sc, nil, false)
	vcrand.FailAt, vcrand.ScriptAt = 0, 0
	if (failAt > 0 || scriptAt > 0) && (w.ConnErr != nil || w.ConnPanic != "" || !w.ConnReturned || w.Auth == nil || w.Auth.GB == nil || !w.Auth.Done) {
		return secrets{}, "" // refusing to go on without the OS source / with a degenerate value from it is fine
	}
	if w.Auth == nil || w.Auth.GB == nil || w.ConnErr != nil || w.ConnPanic != "" {
		return nil, fmt.Sprintf("exchange failed: err=%v panic=%s problems=%v", w.ConnErr, w.ConnPanic, w.Auth.Problems)
	}
	return secrets{"nonce": w.Auth.Nonce, "new_nonce": w.Auth.NewNonce, "dh_exponent(g_b)": authsrv.Fixed(w.Auth.GB, 256)}, ""
}

// secureRandom: what the server sends along with the challenge (account.password.secure_random); it is chosen
// by the server, so nothing derived from it alone is a secret
var secureRandom []byte

func srpWithServerRandom(n int) func(s int64, clock int64, extraClient bool) (secrets, string) {
	return func(s int64, clock int64, extraClient bool) (secrets, string) {
		secureRandom = make([]byte, n)
		for i := range secureRandom {
			secureRandom[i] = byte(i*29 + 3)
		}
		defer func() { secureRandom = nil }()
		return srp(s, clock, extraClient)
	}
}

// fromScript: is v exactly what the scripted OS read (scriptByte repeated) turns into for this secret?
func fromScript(name string, v []byte) bool {
	all := func(n int) []byte { return bytes.Repeat([]byte{scriptByte}, n) }
	p := hs.HexBig(hs.TelegramPrime)
	exp := new(big.Int).SetBytes(all(256))
	switch name {
	case "nonce", "new_nonce":
		return bytes.Equal(v, all(len(v)))
	case "dh_exponent(g_b)", "srp_ephemeral(A)":
		return new(big.Int).SetBytes(v).Cmp(new(big.Int).Exp(big.NewInt(3), exp, p)) == 0
	}
	return false
}

func srp(s int64, clock int64, extraClient bool) (secrets, string) {
	mrand.Seed(s)
	vclock.Pin(clock)
	defer vclock.Pin(0)
	if extraClient {
		mtproto.NewMTProto(mtproto.Config{SessionStorage: &sess.MemStore{}, ServerHost: "x:1"})
	}
	p := hs.HexBig(hs.TelegramPrime)
	B := make([]byte, 256)
	B[0], B[255] = 0x40, 7
	vcrand.FailAt = failAt
	vcrand.ScriptAt, vcrand.Script = scriptAt, scriptByte
	defer func() { vcrand.FailAt, vcrand.ScriptAt = 0, 0 }()
	var res telegram.InputCheckPasswordSRP
	var err error
	if p, _, _ := vr.Try(func() {
		res, err = telegram.GetInputCheckPassword("pw", &telegram.AccountPassword{SRPB: B, SRPID: 1, SecureRandom: secureRandom,
			CurrentAlgo: &telegram.PasswordKdfAlgoSHA256SHA256PBKDF2HMACSHA512iter100000SHA256ModPow{Salt1: []byte("s1"), Salt2: []byte("s2"), G: 3, P: p.Bytes()}})
	}); p && (failAt > 0 || scriptAt > 0) {
		return secrets{}, ""
	}
	if err != nil {
		if failAt > 0 || scriptAt > 0 {
			return secrets{}, ""
		}
		return nil, err.Error()
	}
	o, ok := res.(*telegram.InputCheckPasswordSRPObj)
	if !ok {
		return nil, fmt.Sprintf("answer %T", res)
	}
	return secrets{"srp_ephemeral(A)": o.A}, ""
}

// rec is one secret of one run, in the order the runs were made; a second process makes the same runs in the
// same order with the same reproducible inputs, and the two lists are compared position by position
type rec struct {
	Scenario, Env, Name, Hex string
	FromScript               bool
}

var recs []rec

// ---- first use of the random machinery by several goroutines at once -------------------------------------------
//
// Whatever the library builds lazily around the OS source (a keyed generator, a pool, a fallback) is built by the
// first draw of the process; several clients starting at the same moment make that first draw concurrently.
// The scenario: N threads, each drawing what one client draws at the start of a key exchange (nonce, new_nonce,
// DH exponent). Every interleaving of the threads at locks, unlocks and reads of the OS source (a read may block)
// with at most D non-default choices is run in two fresh processes; a secret that is equal in both, or equal to
// another secret of the same run, does not come from the OS source.

type firstUseOut struct {
	Points  []sched.Point
	Outcome string
	Fatal   string
	Secrets map[string]string
}

func firstUseThreads() int {
	if n, _ := strconv.Atoi(os.Getenv("VERIF_C19_FIRSTUSE_THREADS")); n > 0 {
		return n
	}
	return 2
}

func firstUseChild(prefixJSON, out string) {
	var prefix []int
	json.Unmarshal([]byte(prefixJSON), &prefix)
	vcrand.YieldOnRead = true
	mrand.Seed(1)
	s := sched.New(prefix)
	s.UnlockYields = true
	p := hs.HexBig(hs.TelegramPrime)
	ga := new(big.Int).Exp(big.NewInt(3), big.NewInt(0x1234567), p)
	var mu sync.Mutex
	sec := map[string]string{}
	put := func(k string, v []byte) { mu.Lock(); sec[k] = hex.EncodeToString(v); mu.Unlock() }
	for i := 0; i < firstUseThreads(); i++ {
		i := i
		s.Go(fmt.Sprintf("client%d", i), func() {
			n := tl.RandomInt128()
			put(fmt.Sprintf("client%d.nonce", i), authsrv.Fixed(n.Int, 16))
			nn := tl.RandomInt256()
			put(fmt.Sprintf("client%d.new_nonce", i), authsrv.Fixed(nn.Int, 32))
			_, gb, _ := rmath.MakeGAB(3, ga, p)
			put(fmt.Sprintf("client%d.dh_exponent(g_b)", i), authsrv.Fixed(gb, 256))
		})
	}
	o := s.Run()
	res := firstUseOut{Points: s.Points, Outcome: o.String(), Secrets: sec}
	if f := s.FatalEvent(); f != nil {
		res.Fatal = f.Msg + " in " + f.Frame
	}
	b, _ := json.Marshal(res)
	os.WriteFile(out, b, 0o644)
	os.Exit(0)
}

func firstUseRun(prefix []int) (firstUseOut, error) {
	f, err := os.CreateTemp("", "c19-first-*.json")
	if err != nil {
		return firstUseOut{}, err
	}
	f.Close()
	defer os.Remove(f.Name())
	pj, _ := json.Marshal(prefix)
	cmd := exec.Command(os.Args[0])
	cmd.Env = append(os.Environ(), "VERIF_C19_FIRSTUSE="+string(pj), "VERIF_C19_FIRSTUSE_OUT="+f.Name(), "VERIF_NOEVIDENCE=1", "GOMAXPROCS=2")
	if outp, err := cmd.CombinedOutput(); err != nil {
		return firstUseOut{}, fmt.Errorf("%v: %s", err, outp)
	}
	var res firstUseOut
	b, err := os.ReadFile(f.Name())
	if err != nil {
		return res, err
	}
	return res, json.Unmarshal(b, &res)
}

func firstUse(run *vr.Run) {
	threads, D := 2, 2
	if run.Thorough() {
		threads, D = 3, 3
	}
	os.Setenv("VERIF_C19_FIRSTUSE_THREADS", strconv.Itoa(threads))
	var mu sync.Mutex
	outcomes := map[string]int{}
	type pairRes struct {
		a, b firstUseOut
		err  error
	}
	// the tree is walked level by level so that the processes of one level run 16-wide
	level := [][]int{nil}
	execs, points := 0, 0
	deadline := time.Now().Add(4 * time.Minute)
	truncated := false
	for len(level) > 0 && !truncated {
		results := make([]pairRes, len(level))
		sem := make(chan struct{}, 8)
		var wg sync.WaitGroup
		for i, pre := range level {
			if time.Now().After(deadline) {
				truncated = true
				level = level[:i]
				results = results[:i]
				break
			}
			wg.Add(1)
			sem <- struct{}{}
			go func(i int, pre []int) {
				defer wg.Done()
				defer func() { <-sem }()
				a, err := firstUseRun(pre)
				if err != nil {
					results[i] = pairRes{err: err}
					return
				}
				b, err := firstUseRun(pre)
				results[i] = pairRes{a, b, err}
			}(i, pre)
		}
		wg.Wait()
		var next [][]int
		for i, r := range results {
			pre := level[i]
			if r.err != nil {
				fmt.Fprintln(os.Stderr, "HARNESS-ERROR: first-use worker:", r.err)
				os.Exit(2)
			}
			execs++
			points += len(r.a.Points)
			x := sched.Exec{Points: r.a.Points}
			choices := sched.Choices(x)
			id := fmt.Sprintf("first-use threads=%d choices=%v", threads, choices)
			rep := map[string]any{"first_use_choices": choices, "threads": threads}
			mu.Lock()
			outcomes[r.a.Outcome]++
			mu.Unlock()
			run.Eval(id, true)
			run.Outcome("first-use:" + r.a.Outcome)
			if r.a.Fatal != "" || r.a.Outcome != sched.Quiescent.String() {
				run.Violation("first-use|"+r.a.Outcome+"|"+vr.MsgClass(r.a.Fatal), id+": the draws did not complete: "+r.a.Outcome+" "+r.a.Fatal, rep)
			}
			if len(r.a.Points) != len(r.b.Points) {
				fmt.Fprintln(os.Stderr, "HARNESS-ERROR: first-use: two processes diverge under one choice list", choices)
				os.Exit(2)
			}
			seen := map[string]string{}
			names := make([]string, 0, len(r.a.Secrets))
			for k := range r.a.Secrets {
				names = append(names, k)
			}
			sort.Strings(names)
			for _, k := range names {
				v := r.a.Secrets[k]
				kind := k[strings.Index(k, ".")+1:]
				if v == r.b.Secrets[k] {
					run.Violation("first-use|repeats-in-a-second-process|"+kind, fmt.Sprintf("%s: %s is identical (%.16s...) in two fresh processes run under the same interleaving: it does not come from the OS random source", id, k, v), rep)
				}
				if o, dup := seen[kind+v]; dup {
					run.Violation("first-use|two-clients-draw-the-same|"+kind, fmt.Sprintf("%s: %s and %s are the same value (%.16s...)", id, o, k, v), rep)
				}
				seen[kind+v] = k
			}
			next = append(next, sched.Children(x, len(pre), sched.Bounds{Preemptions: -1, EnvDev: -1, Delays: D})...)
		}
		level = next
	}
	run.Set("first_use", map[string]any{"threads": threads, "delay_bound": D, "interleavings_each_run_in_two_fresh_processes": execs, "scheduling_points": points, "complete": !truncated, "outcomes": outcomes})
	if truncated {
		run.Truncated("first-use exploration reached its time budget")
	}
}

func main() {
	if pj := os.Getenv("VERIF_C19_FIRSTUSE"); pj != "" {
		firstUseChild(pj, os.Getenv("VERIF_C19_FIRSTUSE_OUT"))
	}
	childOut := os.Getenv("VERIF_C19_CHILD_OUT")
	var child *exec.Cmd
	var childFile string
	if childOut == "" {
		// the same enumeration in a second, fresh process (state that a process keeps between runs - a fallback
		// generator created on the first failure, a pool, a lazily seeded source - is in the same condition at the
		// same position of both processes, so a secret that depends only on reproducible inputs and on the
		// history of the process is equal in both)
		f, err := os.CreateTemp("", "c19-child-*.json")
		if err == nil {
			childFile = f.Name()
			f.Close()
			child = exec.Command(os.Args[0], os.Args[1:]...)
			child.Env = append(os.Environ(), "VERIF_C19_CHILD_OUT="+childFile, "VERIF_NOEVIDENCE=1")
			child.Stdout, child.Stderr = nil, nil
			if err := child.Start(); err != nil {
				child = nil
			}
			defer os.Remove(childFile)
		}
	}
	run := vr.New("C19", "exploration")
	defer run.Recover()
	run.Rule("environment alphabet: global math/rand seed in {1, 2, 0x5eed} x pinned clock in {T0, T0+1s} x scenario {key exchange, key exchange after creating another client, SRP answer, SRP answer after creating a client, SRP answer to a challenge that carries 8 / 256 bytes of server-chosen secure_random} x fault {none, the 1st / 2nd / 3rd read of the OS random source fails, or returns 00..00, or returns ff..ff}; each environment is run twice and all runs are compared pairwise; a secret that repeats is a violation, and so is any 8-byte window of a nonce that occurs twice anywhere in the 12 consecutive exchanges of a group; non-trivial = distinct (scenario, environment, secret) comparison")
	run.Assume("bytes from the OS source differ between runs with probability 1 - 2^-128, so a repeat is a reproducible derivation, not chance",
		"LIMIT: this decides the property for the draw sites these drivers execute and for the reproducible inputs that are pinned (global math/rand state, the clock); a generator seeded from an input that is not pinned (pid, hostname) would pass, and paths no driver executes are not covered - provenance on all paths is a data-flow question outside this technique")
	seeds := []int64{1, 2, 0x5eed}
	clocks := []int64{1600000000 * 1e9, 1600000001 * 1e9}
	type obs struct {
		env string
		sec secrets
	}
	for _, scn := range []struct {
		name string
		f    func(s, c int64, extra bool) (secrets, string)
		xtra bool
	}{{"key-exchange", keyExchange, false}, {"key-exchange-after-new-client", keyExchange, true}, {"srp", srp, false}, {"srp-after-new-client", srp, true},
		{"srp-with-8-byte-secure_random-from-the-server", srpWithServerRandom(8), false}, {"srp-with-256-byte-secure_random-from-the-server", srpWithServerRandom(256), false}} {
		for _, fa := range []int64{0, 1, 2, 3, 101, 102, 103, 201, 202, 203} {
			failAt, scriptAt = 0, 0
			switch {
			case fa >= 200:
				scriptAt, scriptByte = fa-200, 0xff // the n-th read returns ff..ff
			case fa >= 100:
				scriptAt, scriptByte = fa-100, 0x00 // the n-th read returns 00..00
			default:
				failAt = fa
			}
			if fa > 0 && scn.xtra {
				continue
			}
			var all []obs
			for _, s := range seeds {
				for _, c := range clocks {
					for rep := 0; rep < 2; rep++ {
						sec, bad := scn.f(s, c, scn.xtra)
						if bad != "" {
							run.Violation("scenario-fails|"+scn.name, scn.name+": "+bad, nil)
							continue
						}
						all = append(all, obs{fmt.Sprintf("seed=%d clock=%d run=%d fail=%d", s, c/1e9, rep, fa), sec})
						names := make([]string, 0, len(sec))
						for name := range sec {
							names = append(names, name)
						}
						sort.Strings(names)
						for _, name := range names {
							recs = append(recs, rec{scn.name, all[len(all)-1].env, name, hex.EncodeToString(sec[name]), scriptAt > 0 && fromScript(name, sec[name])})
						}
					}
				}
			}
			// pieces: every 8-byte window of every nonce, over all runs of this group (which follow each other in
			// one process, so state kept between exchanges shows): no window may occur twice anywhere
			type where struct {
				run, off int
				name     string
			}
			seenWin := map[string]where{}
			for i, o := range all {
				for _, name := range []string{"nonce", "new_nonce"} {
					v := o.sec[name]
					for off := 0; off+8 <= len(v); off++ {
						if scriptAt > 0 && fromScript(name, v) {
							break
						}
						k := string(v[off : off+8])
						run.Eval(fmt.Sprintf("%s|fail=%d|window %s[%d:%d] of run %d", scn.name, fa, name, off, off+8, i), true)
						if w, dup := seenWin[k]; dup {
							run.Violation(fmt.Sprintf("repeats-partially|%s|%s", scn.name, name),
								fmt.Sprintf("%s: bytes %d..%d of %s in exchange #%d [%s] equal bytes %d..%d of %s in exchange #%d [%s] (%x): part of the secret is not fresh from the OS random source",
									scn.name, off, off+8, name, i, o.env, w.off, w.off+8, w.name, w.run, all[w.run].env, v[off:off+8]), map[string]any{"scenario": scn.name, "secret": name})
						} else {
							seenWin[k] = where{i, off, name}
						}
					}
				}
			}
			for i := 0; i < len(all); i++ {
				for j := i + 1; j < len(all); j++ {
					for name, v := range all[i].sec {
						if scriptAt > 0 && fromScript(name, v) {
							continue // this value is what the scripted OS read itself gives: reproducible by construction
						}
						id := fmt.Sprintf("%s|%s|%s vs %s", scn.name, name, all[i].env, all[j].env)
						run.Eval(id, true)
						if bytes.Equal(v, all[j].sec[name]) {
							same := "same-seed-same-clock"
							ei, ej := strings.Fields(all[i].env), strings.Fields(all[j].env)
							switch {
							case ei[0] != ej[0] && ei[1] == ej[1]:
								same = "different-seed-same-clock"
							case ei[0] == ej[0] && ei[1] != ej[1]:
								same = "same-seed-different-clock"
							case ei[0] != ej[0]:
								same = "different-seed-different-clock"
							}
							switch {
							case fa >= 200:
								same += fmt.Sprintf("|os-source-read-%d-returns-ff", fa-200)
							case fa >= 100:
								same += fmt.Sprintf("|os-source-read-%d-returns-00", fa-100)
							case fa > 0:
								same += fmt.Sprintf("|os-source-read-%d-fails", fa)
							}
							run.Violation(fmt.Sprintf("repeats|%s|%s|%s", scn.name, name, same),
								fmt.Sprintf("%s: %s is identical (%x...) in two runs [%s] and [%s]: it is a function of reproducible inputs, not of the OS random source", scn.name, name, v[:8], all[i].env, all[j].env), map[string]any{"scenario": scn.name, "secret": name})
						}
					}
				}
			}
		}
		failAt, scriptAt = 0, 0
	}
	if childOut != "" {
		b, _ := json.Marshal(recs)
		os.WriteFile(childOut, b, 0o644)
		os.Exit(0)
	}
	crossed := 0
	if child != nil {
		child.Wait()
		var other []rec
		if b, err := os.ReadFile(childFile); err == nil {
			json.Unmarshal(b, &other)
		}
		// positions are matched by (scenario, environment, name, occurrence): a run that refused to go on in one
		// process only (it may, under a fault) does not shift the rest
		idx := map[string][]rec{}
		for _, r := range other {
			k := r.Scenario + "|" + r.Env + "|" + r.Name
			idx[k] = append(idx[k], r)
		}
		used := map[string]int{}
		for _, r := range recs {
			k := r.Scenario + "|" + r.Env + "|" + r.Name
			n := used[k]
			used[k]++
			if n >= len(idx[k]) || r.FromScript || r.Hex == "" {
				continue
			}
			crossed++
			run.Eval("second process|"+k, true)
			if idx[k][n].Hex == r.Hex {
				fault := "no-fault"
				if !strings.HasSuffix(r.Env, "fail=0") {
					fault = "under-an-os-source-fault"
				}
				run.Violation(fmt.Sprintf("repeats-in-a-second-process|%s|%s|%s", r.Scenario, r.Name, fault),
					fmt.Sprintf("%s: %s of run [%s] is identical (%.16s...) in two separate processes that made the same runs with the same seeds and clock: it is a function of reproducible inputs and of what the process did before, not of the OS random source", r.Scenario, r.Name, r.Env, r.Hex), map[string]any{"scenario": r.Scenario, "secret": r.Name})
			}
		}
		if len(other) == 0 {
			run.Set("second_process", "did not report (not judged)")
		}
	}
	run.Set("compared_with_a_second_process", crossed)
	firstUse(run)
	run.Sample(map[string]any{"scenario": "key-exchange", "environment": "math/rand seeded with 1, clock pinned to T0", "compared": "nonce, new_nonce, g_b of run 0 vs run 1"})
	freepass.Run(run, run.ID, freepass.Rounds(run))
	run.Finish()
}
