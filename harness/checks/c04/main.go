// C04 — forged or altered packets are refused (fault enumeration around R2-sealed packets).
package main

import (
	"bytes"
	"crypto/sha1"
	"encoding/binary"
	"fmt"
	"os"
	"strings"

	"github.com/xelaj/mtproto/internal/mode"
	"github.com/xelaj/mtproto/internal/mtproto/messages"
	"github.com/xelaj/mtproto/internal/transport"
	"github.com/xelaj/mtproto/zverif/freepass"
	"github.com/xelaj/mtproto/zverif/ref/mtp1"
	"github.com/xelaj/mtproto/zverif/vr"
)

type informator struct{ key []byte }

func (i *informator) GetSessionID() int64  { return 5 }
func (i *informator) GetSeqNo() int32      { return 0 }
func (i *informator) GetServerSalt() int64 { return 9 }
func (i *informator) GetAuthKey() []byte   { return i.key }

func pat(n int, f func(i int) byte) []byte {
	b := make([]byte, n)
	for i := range b {
		b[i] = f(i)
	}
	return b
}

type memConn struct{ r *bytes.Reader }

func (m *memConn) Read(p []byte) (int, error) {
	n := 0
	for n < len(p) {
		k, err := m.r.Read(p[n:])
		n += k
		if err != nil {
			return n, err
		}
	}
	return n, nil
}
func (m *memConn) Write(p []byte) (int, error) { return len(p), nil }
func (m *memConn) Close() error                { return nil }

type result struct {
	ok       bool // a message was produced
	m        mtp1.Msg
	panicked bool
	pmsg, fr string
}

var devnull, _ = os.OpenFile(os.DevNull, os.O_WRONLY, 0)

func quiet(f func()) {
	old := os.Stdout
	os.Stdout = devnull
	defer func() { os.Stdout = old }()
	f()
}

func viaMessages(key, pkt []byte) result {
	var r result
	var e *messages.Encrypted
	var err error
	r.panicked, r.pmsg, r.fr = vr.Try(func() { e, err = messages.DeserializeEncrypted(append([]byte{}, pkt...), key) })
	if !r.panicked && err == nil && e != nil {
		r.ok = true
		r.m = mtp1.Msg{Salt: e.Salt, Session: e.SessionID, MsgID: e.MsgID, SeqNo: e.SeqNo, Body: e.Msg}
	}
	return r
}

func viaTransport(key, pkt []byte) result {
	var r result
	frame := make([]byte, 4)
	binary.LittleEndian.PutUint32(frame, uint32(len(pkt)))
	conn := &memConn{r: bytes.NewReader(append(frame, pkt...))}
	var c messages.Common
	var err error
	r.panicked, r.pmsg, r.fr = vr.Try(func() {
		quiet(func() {
			t, terr := transport.VerifNewTransport(&informator{key}, conn, mode.Intermediate)
			if terr != nil {
				err = terr
				return
			}
			c, err = t.ReadMsg()
		})
	})
	if !r.panicked && err == nil && c != nil {
		r.ok = true
		if e, isEnc := c.(*messages.Encrypted); isEnc {
			r.m = mtp1.Msg{Salt: e.Salt, Session: e.SessionID, MsgID: e.MsgID, SeqNo: e.SeqNo, Body: e.Msg}
		} else {
			r.m = mtp1.Msg{MsgID: int64(c.GetMsgID()), Body: c.GetMsg(), Salt: -12345} // an unencrypted message came out
		}
	}
	return r
}

// viaTransportStream reads all packets, in order, through ONE transport object (what a connection does).
func viaTransportStream(key []byte, pkts [][]byte) []result {
	return viaTransportStreamKeys([][]byte{key}, pkts)
}

// viaTransportStreamKeys: the session's key is keys[i] (the last one if the list is shorter) while packet i is read.
func viaTransportStreamKeys(keys [][]byte, pkts [][]byte) []result {
	key := keys[0]
	var stream []byte
	for _, p := range pkts {
		stream = binary.LittleEndian.AppendUint32(stream, uint32(len(p)))
		stream = append(stream, p...)
	}
	conn := &memConn{r: bytes.NewReader(stream)}
	out := make([]result, len(pkts))
	var t transport.Transport
	var terr error
	inf := &informator{key}
	quiet(func() { t, terr = transport.VerifNewTransport(inf, conn, mode.Intermediate) })
	if terr != nil {
		return out
	}
	for i := range pkts {
		inf.key = keys[min(i, len(keys)-1)]
		r := &out[i]
		var c messages.Common
		var err error
		r.panicked, r.pmsg, r.fr = vr.Try(func() { quiet(func() { c, err = t.ReadMsg() }) })
		if !r.panicked && err == nil && c != nil {
			r.ok = true
			if e, isEnc := c.(*messages.Encrypted); isEnc {
				r.m = mtp1.Msg{Salt: e.Salt, Session: e.SessionID, MsgID: e.MsgID, SeqNo: e.SeqNo, Body: e.Msg}
			} else {
				r.m = mtp1.Msg{MsgID: int64(c.GetMsgID()), Body: c.GetMsg(), Salt: -12345}
			}
		}
	}
	return out
}

func main() {
	run := vr.New("C04", "fault_enumeration")
	defer run.Recover()
	freepass.MaybeReplay(run)
	run.Rule("base packets (R2-sealed server packets, 7 body lengths x 2 keys) x every single-bit flip of every byte, every truncation length, garbage ciphertext blocks, wrong key id / re-keying, attacker-with-key re-seals with every declared length in {-2^31,-1,2^31-1} u {len-33..len+33} x both msg_key choices, every msg_id parity; through messages.DeserializeEncrypted and through transport.ReadMsg; plus structural faults of unencrypted packets. non-trivial = distinct faulted packet (differs from the base packet)")
	run.Assume("oracle: an altered, truncated or re-keyed packet must be refused with an error, except where the reference MTProto 1.0 peer itself opens it (an alteration confined to the unauthenticated padding): then exactly the message the reference opens may be returned; a re-seal whose declared length lies inside the plaintext and whose msg_key covers exactly that range is a legitimate message (body = declared range) and may be accepted as such or refused",
		"acceptance of a bit-flipped packet would need a SHA-1 collision on msg_key; the oracle compares fields rather than relying on that")
	keys := [][]byte{pat(256, func(i int) byte { return byte(i*7 + 1) }), pat(256, func(i int) byte { return byte(255 - i) })}
	lens := []int{0, 4, 12, 16, 28, 32, 60}
	if run.Thorough() {
		lens = append(lens, 1, 2, 3, 5, 15, 17, 31, 33, 100, 252, 256)
	}
	entries := map[string]func(key, pkt []byte) result{"messages.DeserializeEncrypted": viaMessages, "transport.ReadMsg": viaTransport}
	base := func(n int) mtp1.Msg {
		return mtp1.Msg{Salt: 0x1122334455667788, Session: -2, MsgID: 1600000000<<32 | 0x1235, SeqNo: 3, Body: pat(n, func(i int) byte { return byte(i*13 + 7) })}
	}
	curKey := keys[0]
	var curPkt []byte
	check := func(entry, class, id string, rep map[string]any, r result, allowed ...mtp1.Msg) {
		// MTProto 1.0 does not authenticate the padding: an alteration confined to it leaves header and body -
		// all that msg_key covers - intact, and any conformant implementation opens the packet to the sealed
		// message. The reference decides: what it opens may be returned (and nothing else).
		if curPkt != nil {
			if m, _, err := mtp1.Open(curKey, curPkt, 8); err == nil {
				allowed = append(allowed, m)
			}
		}
		switch {
		case r.panicked:
			run.Violation(entry+"|"+class+"|panic|"+vr.MsgClass(r.pmsg)+"|"+r.fr, fmt.Sprintf("%s: panic: %s in %s", id, r.pmsg, r.fr), rep)
			run.Outcome("panic")
		case r.ok:
			for _, a := range allowed {
				if r.m.Equal(a) {
					run.Outcome("accepted-legit")
					return
				}
			}
			run.Outcome("accepted-forged")
			run.Violation(entry+"|"+class+"|accepted", fmt.Sprintf("%s: produced message %v", id, r.m), rep)
		default:
			run.Outcome("refused")
		}
	}
	for ki, key := range keys {
		for _, n := range lens {
			m := base(n)
			pkt := mtp1.Seal(key, m, pat(mtp1.PadLen(n), func(i int) byte { return byte(0xe0 + i) }), 8)
			for entry, f0 := range entries {
				f := func(key, q []byte) result { curKey, curPkt = key, q; return f0(key, q) }
				// sanity: the unmodified packet is accepted
				r := f(key, pkt)
				run.Eval(fmt.Sprintf("%s base k%d n%d", entry, ki, n), false)
				// the accepted message is held while every later packet of this group is processed; what the
				// caller was given must not change under it (checked after each fault family)
				heldOK := r.ok && r.m.Equal(m)
				held := func(after string) {
					if heldOK && !r.m.Equal(m) {
						heldOK = false
						run.Violation(entry+"|accepted-message-changed-later", fmt.Sprintf("%s k%d n%d: the message returned for the genuine packet changed while later packets (%s) were processed: now %v", entry, ki, n, after, r.m),
							map[string]any{"fault": "held-message", "key": ki, "len": n, "entry": entry, "after": after})
					}
				}
				if !r.ok || !r.m.Equal(m) {
					run.Violation(entry+"|base-not-accepted", fmt.Sprintf("unmodified packet (len %d) not accepted as sealed: %+v", n, r), map[string]any{"fault": "none", "key": ki, "len": n})
				}
				// 0. history across sessions: right after the genuine packet was read under this key, the same
				// bytes relabelled with the other key's id are presented to a session holding the other key
				// (refused: never sealed under it), and then the same message genuinely sealed under the other
				// key is read there (accepted: nothing remembered from the first session may interfere)
				{
					other := keys[1-ki]
					q := append([]byte{}, pkt...)
					copy(q[:8], mtp1.KeyID(other))
					id := fmt.Sprintf("%s relabelled-after-read k%d n%d", entry, ki, n)
					run.Eval(id, true)
					check(entry, "relabelled-after-genuine-read", id, map[string]any{"fault": "relabel-after-read", "key": ki, "len": n, "entry": entry}, f(other, q))
					g := mtp1.Seal(other, m, pat(mtp1.PadLen(n), func(i int) byte { return byte(0x30 + i) }), 8)
					r2 := f(other, g)
					run.Eval(id+" then-genuine", false)
					if !r2.ok || !r2.m.Equal(m) {
						run.Violation(entry+"|genuine-after-other-session-not-accepted", fmt.Sprintf("%s: the same message sealed under the other key is not accepted after the first session read its packet: %+v", id, r2), map[string]any{"fault": "relabel-after-read", "key": ki, "len": n, "entry": entry})
					}
					// and back: the first session still reads its own packet
					r3 := f(key, pkt)
					if !r3.ok || !r3.m.Equal(m) {
						run.Violation(entry+"|genuine-reread-not-accepted", fmt.Sprintf("%s: the genuine packet is not accepted when read again: %+v", id, r3), map[string]any{"fault": "relabel-after-read", "key": ki, "len": n, "entry": entry})
					}
				}
				held("relabelled")
				// 1. bit flips
				for bit := 0; bit < len(pkt)*8; bit++ {
					q := append([]byte{}, pkt...)
					q[bit/8] ^= 1 << (bit % 8)
					region := "ciphertext"
					if bit/8 < 8 {
						region = "key-id"
					} else if bit/8 < 24 {
						region = "msg-key"
					}
					id := fmt.Sprintf("%s flip k%d n%d bit%d", entry, ki, n, bit)
					run.Eval(id, true)
					check(entry, "bitflip-"+region, id, map[string]any{"fault": "flip", "key": ki, "len": n, "bit": bit, "entry": entry}, f(key, q))
				}
				held("bit flips")
				// 2. truncations
				for l := 0; l < len(pkt); l++ {
					class := "truncate-block-aligned"
					switch {
					case l < 8:
						class = "truncate-below-key-id"
					case l < 24:
						class = "truncate-below-header"
					case l == 24:
						class = "truncate-no-ciphertext"
					case (l-24)%16 != 0:
						class = "truncate-mid-block"
					}
					if entry == "transport.ReadMsg" && l == 4 {
						continue // a 4-byte frame is a transport error code by definition (C08)
					}
					id := fmt.Sprintf("%s trunc k%d n%d to%d", entry, ki, n, l)
					run.Eval(id, true)
					check(entry, class, id, map[string]any{"fault": "truncate", "key": ki, "len": n, "to": l, "entry": entry}, f(key, pkt[:l]))
				}
				held("truncations")
				// 3. garbage blocks under the right key id and the original msg_key
				for k := 1; k <= 4; k++ {
					for gi, g := range []func(i int) byte{func(int) byte { return 0 }, func(int) byte { return 0xff }, func(i int) byte { return byte(i) }} {
						q := append(append([]byte{}, pkt[:24]...), pat(16*k, g)...)
						id := fmt.Sprintf("%s garbage k%d n%d blocks%d g%d", entry, ki, n, k, gi)
						run.Eval(id, true)
						check(entry, "garbage-blocks", id, map[string]any{"fault": "garbage", "key": ki, "len": n, "blocks": k, "g": gi, "entry": entry}, f(key, q))
					}
				}
				held("garbage blocks")
				// 4. wrong key
				{
					other := keys[1-ki]
					q := mtp1.Seal(other, m, make([]byte, mtp1.PadLen(n)), 8)
					id := fmt.Sprintf("%s rekeyed k%d n%d", entry, ki, n)
					run.Eval(id, true)
					check(entry, "sealed-under-other-key", id, map[string]any{"fault": "rekey", "key": ki, "len": n, "entry": entry}, f(key, q))
					q2 := append([]byte{}, q...)
					copy(q2[:8], mtp1.KeyID(key)) // other key's ciphertext under our key id
					run.Eval(id+" id-swapped", true)
					check(entry, "other-key-right-id", id+" id-swapped", map[string]any{"fault": "rekey-id", "key": ki, "len": n, "entry": entry}, f(key, q2))
				}
				held("re-keyed packets")
				// 5. attacker holds the key: declared lengths
				for _, padBlocks := range []int{0, 1} {
					plainLen := 32 + n + mtp1.PadLen(n) + 16*padBlocks
					decl := []int64{-1 << 31, -1, 1<<31 - 1}
					for d := n - 33; d <= n+33; d++ {
						decl = append(decl, int64(d))
					}
					for d := -40; d < n-33; d++ {
						decl = append(decl, int64(d)) // small negative lengths: 32+d still names a prefix of the plaintext
					}
					for _, d := range decl {
						plain := mtp1.Plain(m, int32(d), pat(plainLen-32-n, func(i int) byte { return byte(0xb0 + i) }))
						inside := d >= 0 && 32+d <= int64(len(plain))
						for mk := 0; mk < 3; mk++ {
							var msgKey []byte
							legit := false
							if mk == 2 {
								// msg_key over the prefix a wrapped-around length computation would take
								if d >= 0 || 32+d < 0 {
									continue
								}
								h := sha1.Sum(plain[:32+d])
								msgKey = h[4:20]
							} else if mk == 0 && inside {
								h := sha1.Sum(plain[:32+d])
								msgKey = h[4:20]
								legit = true
							} else {
								h := sha1.Sum(plain)
								msgKey = h[4:20]
								legit = inside && 32+d == int64(len(plain))
							}
							q := mtp1.SealRaw(key, msgKey, plain, 8)
							class := "declared-len-inside-wrong-msgkey"
							switch {
							case d < 0:
								class = "declared-len-negative"
							case !inside:
								class = "declared-len-oversized"
							case legit:
								class = "declared-len-inside-consistent"
							}
							id := fmt.Sprintf("%s declared k%d n%d pb%d d=%d mk%d", entry, ki, n, padBlocks, d, mk)
							run.Eval(id, true)
							var allowed []mtp1.Msg
							if legit {
								a := m
								a.Body = plain[32 : 32+d]
								allowed = append(allowed, a)
							}
							check(entry, class, id, map[string]any{"fault": "declared", "key": ki, "len": n, "padBlocks": padBlocks, "d": d, "mk": mk, "entry": entry}, f(key, q), allowed...)
						}
					}
				}
				held("declared lengths")
				// 6. msg_id parity
				for par := int64(0); par < 4; par++ {
					mm := m
					mm.MsgID = m.MsgID&^3 | par
					q := mtp1.Seal(key, mm, make([]byte, mtp1.PadLen(n)), 8)
					id := fmt.Sprintf("%s parity k%d n%d p%d", entry, ki, n, par)
					run.Eval(id, true)
					var allowed []mtp1.Msg
					if par == 1 || par == 3 {
						allowed = append(allowed, mm)
					}
					r := f(key, q)
					check(entry, fmt.Sprintf("msg-id-parity-%d", par), id, map[string]any{"fault": "parity", "key": ki, "len": n, "par": par, "entry": entry}, r, allowed...)
					if (par == 1 || par == 3) && !r.ok && !r.panicked {
						run.Violation(entry+"|server-parity-refused", id+": a well-formed server message was refused", nil)
					}
				}
			}
		}
	}
	// ---- history on one connection: after the genuine packet, every block-aligned truncation of it, every
	// shorter genuine packet followed by a truncation of the longer one, and the genuine packet again
	for ki, key := range keys {
		for _, n := range lens {
			m := base(n)
			pkt := mtp1.Seal(key, m, pat(mtp1.PadLen(n), func(i int) byte { return byte(0xe0 + i) }), 8)
			small := base(0)
			small.MsgID += 4
			spkt := mtp1.Seal(key, small, pat(mtp1.PadLen(0), func(i int) byte { return byte(0x50 + i) }), 8)
			pkts := [][]byte{pkt}
			kinds := []string{"genuine"}
			for l := 24 + 16; l < len(pkt); l += 16 {
				pkts = append(pkts, pkt[:l])
				kinds = append(kinds, fmt.Sprintf("truncated-to-%d-after-genuine", l))
			}
			pkts, kinds = append(pkts, spkt), append(kinds, "genuine-short")
			for l := 24 + 16; l < len(pkt); l += 16 {
				pkts = append(pkts, pkt[:l])
				kinds = append(kinds, fmt.Sprintf("truncated-to-%d-after-short", l))
			}
			pkts, kinds = append(pkts, pkt), append(kinds, "genuine-again")
			res := viaTransportStream(key, pkts)
			for i, r := range res {
				id := fmt.Sprintf("transport history k%d n%d #%d %s", ki, n, i, kinds[i])
				run.Eval(id, true)
				rep := map[string]any{"fault": "transport-history", "key": ki, "len": n, "index": i}
				curKey, curPkt = key, pkts[i]
				switch {
				case strings.HasPrefix(kinds[i], "genuine"):
					want := m
					if kinds[i] == "genuine-short" {
						want = small
					}
					if !r.ok || !r.m.Equal(want) {
						run.Violation("transport.ReadMsg|history|genuine-not-accepted", fmt.Sprintf("%s: %+v", id, r), rep)
					}
				default:
					check("transport.ReadMsg", "history-truncated-block-aligned", id, rep, r)
				}
			}
		}
	}
	// ---- the session's key changes while the connection lives (no key -> K1 -> K2 -> K1): every packet is
	// judged against the key the session holds when it is read
	{
		k1, k2 := keys[0], keys[1]
		m := base(12)
		p1 := mtp1.Seal(k1, m, pat(mtp1.PadLen(12), func(i int) byte { return byte(0xe0 + i) }), 8)
		p2 := mtp1.Seal(k2, m, pat(mtp1.PadLen(12), func(i int) byte { return byte(0xd0 + i) }), 8)
		type step struct {
			key  []byte
			pkt  []byte
			want bool
			what string
		}
		steps := []step{
			{k1, p1, true, "K1 packet under K1"}, {k1, p2, false, "K2 packet under K1"},
			{k2, p2, true, "K2 packet after the key became K2"}, {k2, p1, false, "K1 packet after the key became K2"},
			{k1, p1, true, "K1 packet after the key became K1 again"}, {k1, p2, false, "K2 packet after the key became K1 again"},
		}
		var ks, ps [][]byte
		for _, st := range steps {
			ks, ps = append(ks, st.key), append(ps, st.pkt)
		}
		for i, r := range viaTransportStreamKeys(ks, ps) {
			id := fmt.Sprintf("transport key history #%d %s", i, steps[i].what)
			run.Eval(id, true)
			rep := map[string]any{"fault": "transport-key-history", "index": i}
			switch {
			case r.panicked:
				run.Violation("transport.ReadMsg|key-history|panic|"+vr.MsgClass(r.pmsg)+"|"+r.fr, id+": panic: "+r.pmsg, rep)
			case steps[i].want && (!r.ok || !r.m.Equal(m)):
				run.Violation("transport.ReadMsg|key-history|current-key-packet-refused", id+": a packet sealed under the key the session holds now is not accepted", rep)
			case !steps[i].want && r.ok:
				run.Violation("transport.ReadMsg|key-history|other-key-packet-accepted", id+": a packet sealed under a key the session does not hold (any more) is accepted", rep)
			}
		}
	}
	// ---- no auth key yet (during the key exchange the session has none): a packet that looks encrypted and
	// carries the key id of the empty key must be refused like any other, through both entries
	for _, nokey := range [][]byte{nil, {}} {
		for blocks := 0; blocks <= 3; blocks++ {
			q := append(append([]byte{}, mtp1.KeyID(nokey)...), pat(16+16*blocks, func(i int) byte { return byte(i*11 + 3) })...)
			for entry, f0 := range entries {
				id := fmt.Sprintf("%s no-auth-key-yet blocks=%d nil=%v", entry, blocks, nokey == nil)
				run.Eval(id, true)
				curKey, curPkt = nil, nil
				check(entry, "no-auth-key-yet", id, map[string]any{"fault": "no-key", "blocks": blocks, "entry": entry}, f0(nokey, q))
			}
		}
	}
	// ---- unencrypted packets: structural faults
	for _, n := range []int{0, 4, 20, 64} {
		body := pat(n, func(i int) byte { return byte(i + 1) })
		good := make([]byte, 20, 20+n)
		binary.LittleEndian.PutUint64(good[8:], uint64(1600000000<<32|1))
		binary.LittleEndian.PutUint32(good[16:], uint32(n))
		good = append(good, body...)
		want := mtp1.Msg{MsgID: 1600000000<<32 | 1, Body: body}
		try := func(class, id string, q []byte, allowed ...mtp1.Msg) {
			var u *messages.Unencrypted
			var err error
			var r result
			r.panicked, r.pmsg, r.fr = vr.Try(func() { quiet(func() { u, err = messages.DeserializeUnencrypted(q) }) })
			if !r.panicked && err == nil && u != nil {
				r.ok, r.m = true, mtp1.Msg{MsgID: u.MsgID, Body: u.Msg}
				if r.m.Body == nil {
					r.m.Body = []byte{}
				}
			}
			run.Eval(id, true)
			check("messages.DeserializeUnencrypted", class, id, map[string]any{"fault": class, "len": n, "id": id}, r, allowed...)
		}
		for l := 0; l < len(good); l++ {
			c := "plain-truncate-body"
			if l < 20 {
				c = "plain-truncate-header"
			}
			try(c, fmt.Sprintf("plain n%d trunc%d", n, l), good[:l], want)
		}
		for _, d := range []int64{-1, -1 << 31, 1<<31 - 1, int64(n) - 4, int64(n) - 1, int64(n) + 1, int64(n) + 4} {
			if d == int64(n) {
				continue
			}
			q := append([]byte{}, good...)
			binary.LittleEndian.PutUint32(q[16:], uint32(d))
			try("plain-declared-len", fmt.Sprintf("plain n%d declared%d", n, d), q, want)
		}
		for par := 0; par < 4; par++ {
			q := append([]byte{}, good...)
			q[8] = q[8]&^3 | byte(par)
			var allowed []mtp1.Msg
			if par == 1 || par == 3 {
				w := want
				w.MsgID = want.MsgID&^3 | int64(par)
				allowed = append(allowed, w)
			}
			try(fmt.Sprintf("plain-parity-%d", par), fmt.Sprintf("plain n%d parity%d", n, par), q, allowed...)
		}
	}
	run.Sample(map[string]any{"fault": "flip", "entry": "transport.ReadMsg", "len": 12, "bit": 200})
	run.Sample(map[string]any{"fault": "declared", "len": 16, "d": -1, "msg_key": "over whole plaintext"})
	run.Sample(map[string]any{"fault": "truncate", "len": 28, "to": 23})
	freepass.Run(run, run.ID, freepass.Rounds(run))
	run.Finish()
}
