// C18 — the 2FA SRP answer verifies for the right password and only for it.
package main

import (
	"fmt"
	"math/big"
	"strings"
	"sync"

	"github.com/xelaj/mtproto/telegram"
	"github.com/xelaj/mtproto/zverif/freepass"
	"github.com/xelaj/mtproto/zverif/ref/srpref"
	"github.com/xelaj/mtproto/zverif/vr"
	"github.com/xelaj/mtproto/zverif/vrand"
)

// the 2048-bit safe prime Telegram's servers use (core.telegram.org/mtproto/auth_key) and RFC 3526 group 14
const telegramPrime = "C71CAEB9C6B1C9048E6C522F70F13F73980D40238E3E21C14934D037563D930F48198A0AA7C14058229493D22530F4DBFA336F6E0AC925139543AED44CCE7C3720FD51F69458705AC68CD4FE6B6B13ABDC9746512969328454F18FAF8C595F642477FE96BB2A941D5BCD1D4AC8CC49880708FA9B378E3C4F3A9060BEE67CF9A4A4A695811051907E162753B56B0F6B410DBA74D8A84B2A14B3144E0EF1284754FD17ED950D5965B4B9DD46582DB1178D169C6BC465B0D6FF9CA3928FEF5B9AE4E418FC15E83EBEA0F87FA9FF5EED70050DED2849F47BF959D956850CE929851F0D8115F635B105EE2E4E15D04B2454BF6F4FADF034B10403119CD8E3B92FCC5B"
const rfc3526g14 = "FFFFFFFFFFFFFFFFC90FDAA22168C234C4C6628B80DC1CD129024E088A67CC74020BBEA63B139B22514A08798E3404DDEF9519B3CD3A431B302B0A6DF25F14374FE1356D6D51C245E485B576625E7EC6F44C42E9A637ED6B0BFF5CB6F406B7EDEE386BFB5A899FA5AE9F24117C4B1FE649286651ECE45B3DC2007CB8A163BF0598DA48361C55D39A69163FA8FD24CF5F83655D23DCA3AD961C62F356208552BB9ED529077096966D670C354E4ABC9804F1746C08CA18217C32905E462E36CE3BE39E772C180E86039B2783A2EC07A28FB5C55DF06F4C52C9DE2BCBF6955817183995497CEA956AE515D2261898FA051015728E5A8AACAA68FFFFFFFFFFFFFFFF"

func hexBig(s string) *big.Int { b, _ := new(big.Int).SetString(s, 16); return b }

func lz(b *big.Int) int { return 256 - len(b.Bytes()) }

// findExp counts upward from start and returns the first exponent e >= start for which f(e) has want leading zero bytes.
func findExp(start int64, want int, limit int, f func(e *big.Int) *big.Int) *big.Int {
	for i := 0; i < limit; i++ {
		e := big.NewInt(start + int64(i))
		if lz(f(e)) == want {
			return e
		}
	}
	return nil
}

type job struct {
	id         string
	password   string
	verifierOf string
	s1, s2     []byte
	grp        srpref.Group
	a, b       *big.Int
	wantOK     bool
	class      string
}

func main() {
	run := vr.New("C18", "exploration")
	defer run.Recover()
	freepass.MaybeReplay(run)
	run.Rule("passwords x salt pairs x groups x (a, b) chosen by deterministic upward search in the reference so that A, B and S each take 0, 1 and 2 leading zero bytes (full product of the listed alphabets; the client's ephemeral a is injected through the owned random seam of the public GetInputCheckPassword); every ordered pair of distinct passwords; bad-B menu; empty password; non-trivial = distinct case whose answer was checked by the reference verifier")
	run.Assume("reference R6 (harness/ref/srpref) implements the verifier side of core.telegram.org/api/srp with its own PBKDF2-HMAC-SHA512", "the client's random draw for a is owned through vrand (dry.RandomBytes call site)")
	passwords := []string{"a", "correct horse", "пароль", "\x00x", strings.Repeat("z", 64)}
	// the 2nd pair shares salt1 with the 1st and the 3rd shares salt2 with it: a value cached under too small a key shows up
	salts := [][2][]byte{{[]byte("saltsalt"), []byte("SALT2xyz")}, {[]byte("saltsalt"), []byte("other-s2")}, {[]byte("other-s1"), []byte("SALT2xyz")}, {{}, []byte(strings.Repeat("s", 32))}, {[]byte(strings.Repeat("t", 32)), {}}}
	groups := []srpref.Group{{P: hexBig(telegramPrime), G: 3}, {P: hexBig(rfc3526g14), G: 2}}
	if !run.Thorough() {
		passwords = passwords[:3]
		salts = salts[:4]
	}
	var jobs []job
	verifiers := map[string]*srpref.Verifier{}
	var vmu sync.Mutex
	verifier := func(g srpref.Group, pw string, s [2][]byte) *srpref.Verifier {
		k := fmt.Sprintf("%d|%x|%s|%x|%x", g.G, g.P.Bytes()[:4], pw, s[0], s[1])
		vmu.Lock()
		defer vmu.Unlock()
		if v, ok := verifiers[k]; ok {
			return v
		}
		v := srpref.NewVerifier(g, []byte(pw), s[0], s[1])
		verifiers[k] = v
		return v
	}
	classes := map[string]int{}
	for gi, g := range groups {
		for si, s := range salts {
			for pi, pw := range passwords {
				if gi+si+pi > 0 && !run.Thorough() && (gi > 0 && si > 0 || gi > 0 && pi > 0 || si > 0 && pi > 1) {
					continue // quick: deviations from the first group/salt pair one at a time
				}
				v := verifier(g, pw, s)
				gB := big.NewInt(g.G)
				aList := []*big.Int{big.NewInt(1), big.NewInt(2), big.NewInt(5), new(big.Int).Add(new(big.Int).Lsh(big.NewInt(1), 2047), big.NewInt(1)),
					findExp(3000, 1, 20000, func(e *big.Int) *big.Int { return new(big.Int).Exp(gB, e, g.P) })}
				bList := []*big.Int{big.NewInt(7), new(big.Int).Add(new(big.Int).Lsh(big.NewInt(1), 2040), big.NewInt(3)),
					findExp(4000, 1, 20000, v.B)}
				if run.Thorough() {
					aList = append(aList, findExp(3000, 2, 400000, func(e *big.Int) *big.Int { return new(big.Int).Exp(gB, e, g.P) }))
					bList = append(bList, findExp(4000, 2, 400000, v.B))
				}
				for ai, a := range aList {
					if a == nil {
						continue
					}
					A := new(big.Int).Exp(gB, a, g.P)
					bl := append([]*big.Int{}, bList...)
					// a b for which the shared secret S starts with a zero byte
					bl = append(bl, findExp(5000, 1, 5000, func(e *big.Int) *big.Int { return v.S(A, e) }))
					for bi, b := range bl {
						if b == nil {
							continue
						}
						cls := fmt.Sprintf("A-lz%d|B-lz%d|S-lz%d", min(lz(A), 3), min(lz(v.B(b)), 3), min(lz(v.S(A, b)), 3))
						classes[cls]++
						jobs = append(jobs, job{id: fmt.Sprintf("right g%d s%d p%d a%d b%d", gi, si, pi, ai, bi), password: pw, verifierOf: pw, s1: s[0], s2: s[1], grp: g, a: a, b: b, wantOK: true, class: cls})
					}
				}
				// every other password against this verifier
				for qi, other := range passwords {
					if other != pw {
						jobs = append(jobs, job{id: fmt.Sprintf("wrong g%d s%d verifier-p%d answer-p%d", gi, si, pi, qi), password: other, verifierOf: pw, s1: s[0], s2: s[1], grp: g, a: big.NewInt(11), b: big.NewInt(13), wantOK: false, class: "wrong-password"})
					}
				}
			}
		}
	}
	// run the client calls 16-wide; the owned random seam is process-global, so each call is serialised
	// around the draw by forcing exactly one value before it
	var mu sync.Mutex
	sem := make(chan struct{}, 16)
	var wg sync.WaitGroup
	for _, j := range jobs {
		j := j
		wg.Add(1)
		sem <- struct{}{}
		go func() {
			defer wg.Done()
			defer func() { <-sem }()
			v := verifier(j.grp, j.verifierOf, [2][]byte{j.s1, j.s2})
			B := v.B(j.b)
			ap := &telegram.AccountPassword{HasPassword: true, SRPID: 77, SRPB: pad256(B.Bytes()),
				CurrentAlgo: &telegram.PasswordKdfAlgoSHA256SHA256PBKDF2HMACSHA512iter100000SHA256ModPow{Salt1: j.s1, Salt2: j.s2, G: int32(j.grp.G), P: j.grp.P.Bytes()}}
			var res telegram.InputCheckPasswordSRP
			var err error
			aBytes := pad256(j.a.Bytes())
			p, pm, fr := vr.Try(func() {
				res, err = callWithA(j.password, ap, aBytes)
			})
			mu.Lock()
			defer mu.Unlock()
			run.Eval(j.id, true)
			rep := map[string]any{"case": j.id}
			switch {
			case p:
				run.Violation("panic|"+vr.MsgClass(pm)+"|"+fr+"|"+j.class, j.id+": "+pm, rep)
			case err != nil:
				run.Violation("error|"+j.class, j.id+": "+err.Error(), rep)
			default:
				o, ok := res.(*telegram.InputCheckPasswordSRPObj)
				if !ok {
					run.Violation("answer-kind|"+j.class, fmt.Sprintf("%s: got %T", j.id, res), rep)
					return
				}
				if len(o.A) != 256 {
					run.Violation("A-not-256-bytes|"+j.class, fmt.Sprintf("%s: A has %d bytes", j.id, len(o.A)), rep)
				}
				if o.SRPID != 77 {
					run.Violation("srp-id|"+j.class, j.id, rep)
				}
				accepted := v.Check(o.A, o.M1, j.b)
				if accepted != j.wantOK {
					if j.wantOK {
						run.Violation("right-password-rejected|"+j.class, j.id+": the reference verifier rejects the answer computed for the right password", rep)
					} else {
						run.Violation("wrong-password-accepted", j.id+": the answer for another password is accepted", rep)
					}
				}
			}
		}()
	}
	wg.Wait()
	// histories, one call after the other in this process: every ordered pair of (password, salt1, salt2) triples
	// from a 2x2x2 alphabet that differ in exactly one component. The second answer must be what the verifier of
	// the second triple accepts (anything the first call left behind - stretched passwords, group constants -
	// must be remembered under a name that tells the two triples apart), and the answer computed for the other
	// password must still be rejected.
	{
		// the group is a fourth and fifth component: generator (3, 4) and prime (Telegram's, RFC 3526 group 14); what a
		// call leaves behind for a group (parsed prime, k = H(p|g), H(p) xor H(g)) depends on both
		hgroups := []srpref.Group{{P: hexBig(telegramPrime), G: 3}, {P: hexBig(telegramPrime), G: 4}, {P: hexBig(rfc3526g14), G: 3}, {P: hexBig(rfc3526g14), G: 4}}
		pws := []string{passwords[0], passwords[1]}
		s1s := [][]byte{[]byte("saltsalt"), []byte("other-s1")}
		s2s := [][]byte{[]byte("SALT2xyz"), []byte("other-s2")}
		type tr struct{ p, a, b, g int }
		var trs []tr
		for p := 0; p < 2; p++ {
			for a := 0; a < 2; a++ {
				for b := 0; b < 2; b++ {
					for g := 0; g < 4; g++ {
						if g > 0 && !run.Thorough() && p+a+b > 0 {
							continue // quick: the other groups with the first (password, salt1, salt2) only
						}
						trs = append(trs, tr{p, a, b, g})
					}
				}
			}
		}
		ask := func(t tr, answerPw string) (bool, string) {
			g := hgroups[t.g]
			v := verifier(g, pws[t.p], [2][]byte{s1s[t.a], s2s[t.b]})
			b := big.NewInt(13)
			ap := &telegram.AccountPassword{HasPassword: true, SRPID: 77, SRPB: pad256(v.B(b).Bytes()),
				CurrentAlgo: &telegram.PasswordKdfAlgoSHA256SHA256PBKDF2HMACSHA512iter100000SHA256ModPow{Salt1: s1s[t.a], Salt2: s2s[t.b], G: int32(g.G), P: g.P.Bytes()}}
			var res telegram.InputCheckPasswordSRP
			var err error
			if pn, pm, fr := vr.Try(func() { res, err = callWithA(answerPw, ap, pad256(big.NewInt(11).Bytes())) }); pn {
				return false, "panic: " + pm + " in " + fr
			}
			if err != nil {
				return false, "error: " + err.Error()
			}
			o, ok := res.(*telegram.InputCheckPasswordSRPObj)
			if !ok {
				return false, fmt.Sprintf("answer is %T", res)
			}
			return v.Check(o.A, o.M1, b), ""
		}
		nh := 0
		for _, t1 := range trs {
			for _, t2 := range trs {
				diff := 0
				what := ""
				if t1.p != t2.p {
					diff++
					what = "password"
				}
				if t1.a != t2.a {
					diff++
					what = "salt1"
				}
				if t1.b != t2.b {
					diff++
					what = "salt2"
				}
				if t1.g&1 != t2.g&1 {
					diff++
					what = "generator"
				}
				if t1.g>>1 != t2.g>>1 {
					diff++
					what = "prime"
				}
				if diff != 1 {
					continue
				}
				id := fmt.Sprintf("history p%d/s1.%d/s2.%d/group%d then p%d/s1.%d/s2.%d/group%d", t1.p, t1.a, t1.b, t1.g, t2.p, t2.a, t2.b, t2.g)
				rep := map[string]any{"case": id}
				nh++
				run.Eval(id, true)
				if ok, why := ask(t1, pws[t1.p]); !ok {
					run.Violation("history|first-call|right-password-rejected", id+": first call: "+why, rep)
					continue
				}
				if ok, why := ask(t2, pws[t2.p]); !ok {
					run.Violation("history|right-password-rejected|after-a-call-with-another-"+what, id+": the answer for the right password of the second call is rejected "+why, rep)
				}
				if ok, _ := ask(t2, pws[1-t2.p]); ok {
					run.Violation("history|wrong-password-accepted|after-a-call-with-another-"+what, id+": the answer for another password is accepted", rep)
				}
				// and back: the first triple once more (what the second call left must not have replaced what the
				// first one needs under the same name)
				if ok, why := ask(t1, pws[t1.p]); !ok {
					run.Violation("history|right-password-rejected|third-call-like-the-first|after-a-call-with-another-"+what, id+", then the first again: rejected "+why, rep)
				}
			}
		}
		run.Set("call_histories", nh)
	}
	// the server's parameters as they arrive: fields of ONE received buffer, each a window with the rest of the
	// buffer as spare capacity behind it. The answer must verify and the buffer must come back unchanged.
	{
		g := groups[0]
		pw := passwords[1]
		s := salts[0]
		v := verifier(g, pw, s)
		b := big.NewInt(13)
		fields := map[string][]byte{"salt1": s[0], "salt2": s[1], "p": g.P.Bytes(), "B": pad256(v.B(b).Bytes())}
		nl := 0
		for _, order := range [][]string{{"salt1", "salt2", "p", "B"}, {"p", "B", "salt1", "salt2"}, {"B", "p", "salt2", "salt1"}, {"salt2", "salt1", "B", "p"}} {
			var buf []byte
			off := map[string][2]int{}
			for _, f := range order {
				off[f] = [2]int{len(buf), len(buf) + len(fields[f])}
				buf = append(buf, fields[f]...)
			}
			buf = append(buf, []byte(strings.Repeat("\xa5", 64))...)
			before := append([]byte{}, buf...)
			win := func(f string) []byte { return buf[off[f][0]:off[f][1]] } // capacity reaches to the end of buf
			id := "one-buffer layout " + strings.Join(order, ",")
			rep := map[string]any{"case": id}
			nl++
			run.Eval(id, true)
			ap := &telegram.AccountPassword{HasPassword: true, SRPID: 77, SRPB: win("B"),
				CurrentAlgo: &telegram.PasswordKdfAlgoSHA256SHA256PBKDF2HMACSHA512iter100000SHA256ModPow{Salt1: win("salt1"), Salt2: win("salt2"), G: int32(g.G), P: win("p")}}
			var res telegram.InputCheckPasswordSRP
			var err error
			if pn, pm, fr := vr.Try(func() { res, err = callWithA(pw, ap, pad256(big.NewInt(11).Bytes())) }); pn {
				run.Violation("one-buffer|panic|"+vr.MsgClass(pm)+"|"+fr, id+": "+pm, rep)
				continue
			}
			o, ok := res.(*telegram.InputCheckPasswordSRPObj)
			if err != nil || !ok {
				run.Violation("one-buffer|error", fmt.Sprintf("%s: %T, %v", id, res, err), rep)
				continue
			}
			if !v.Check(o.A, o.M1, b) {
				run.Violation("one-buffer|right-password-rejected", id+": the reference verifier rejects the answer computed for the right password when the parameters are windows of one buffer", rep)
			}
			if string(before) != string(buf) {
				run.Violation("one-buffer|parameters-modified", id+": the received parameters were written to by the call", rep)
			}
		}
		run.Set("one_buffer_layouts", nl)
	}
	// bad B, empty password
	g := groups[0]
	v := verifier(g, passwords[0], salts[0])
	good := v.B(big.NewInt(7))
	algo := &telegram.PasswordKdfAlgoSHA256SHA256PBKDF2HMACSHA512iter100000SHA256ModPow{Salt1: salts[0][0], Salt2: salts[0][1], G: 3, P: g.P.Bytes()}
	for name, B := range map[string][]byte{"zero": make([]byte, 256), "p": g.P.Bytes(), "p+1": new(big.Int).Add(g.P, big.NewInt(1)).Bytes(),
		"short-247": pad256(good.Bytes())[9:], "long-257": append([]byte{1}, pad256(good.Bytes())...), "empty": {}} {
		id := "bad-B " + name
		var err error
		var res telegram.InputCheckPasswordSRP
		p, pm, fr := vr.Try(func() {
			res, err = telegram.GetInputCheckPassword(passwords[0], &telegram.AccountPassword{SRPB: B, SRPID: 1, CurrentAlgo: algo})
		})
		run.Eval(id, true)
		if p {
			run.Violation("bad-B|panic|"+name+"|"+vr.MsgClass(pm)+"|"+fr, id+": "+pm, nil)
		} else if err == nil {
			run.Violation("bad-B|accepted|"+name, fmt.Sprintf("%s: an out-of-range server value is accepted (%T)", id, res), nil)
		}
	}
	{
		res, err := telegram.GetInputCheckPassword("", &telegram.AccountPassword{SRPB: pad256(good.Bytes()), SRPID: 1, CurrentAlgo: algo})
		run.Eval("empty password", true)
		if _, ok := res.(*telegram.InputCheckPasswordEmpty); !ok || err != nil {
			run.Violation("empty-password", fmt.Sprintf("empty password: got %T, %v", res, err), nil)
		}
	}
	run.Set("leading_zero_class_table", classes)
	run.Set("client_calls", len(jobs))
	run.Sample(map[string]any{"case": "right password, a=5 (A = g^5: 255 leading zero bytes), b chosen so that S has a leading zero byte"})
	freepass.Run(run, run.ID, freepass.Rounds(run))
	run.Finish()
}

var drawMu sync.Mutex

// callWithA makes the public entry point draw exactly aBytes as its ephemeral secret.
func callWithA(password string, ap *telegram.AccountPassword, aBytes []byte) (telegram.InputCheckPasswordSRP, error) {
	// the draw happens at the very start of the call (before the PBKDF2 work): hold the seam only until the
	// value has been consumed
	drawMu.Lock()
	vrand.Own(1)
	vrand.Force("bytes", aBytes)
	type r struct {
		v   telegram.InputCheckPasswordSRP
		err error
		pan any
	}
	ch := make(chan r, 1)
	go func() {
		defer func() {
			if p := recover(); p != nil {
				ch <- r{pan: p}
			}
		}()
		v, err := telegram.GetInputCheckPassword(password, ap)
		ch <- r{v: v, err: err}
	}()
	// wait until the draw has been logged
	for {
		if n := vrand.DrawCount(); n > 0 {
			break
		}
		select {
		case x := <-ch: // returned without drawing (e.g. validation error)
			vrand.Release()
			drawMu.Unlock()
			if x.pan != nil {
				panic(x.pan)
			}
			return x.v, x.err
		default:
		}
	}
	vrand.Release()
	drawMu.Unlock()
	x := <-ch
	if x.pan != nil {
		panic(x.pan)
	}
	return x.v, x.err
}

func pad256(b []byte) []byte {
	if len(b) >= 256 {
		return b[len(b)-256:]
	}
	return append(make([]byte, 256-len(b)), b...)
}
