// C16 — no server message can kill the client process or stop its receive loop.
// Explicit enumeration of server-message histories (depth <= H over the event
// alphabet), each explored under the scheduler together with a probe request.
package main

import (
	"encoding/binary"
	"fmt"
	"strings"
	"time"

	"github.com/xelaj/mtproto/zverif/hs"
	"github.com/xelaj/mtproto/zverif/ref/mtp1"
	"github.com/xelaj/mtproto/zverif/ref/rpcsrv"
	"github.com/xelaj/mtproto/zverif/ref/tlw"
	"github.com/xelaj/mtproto/zverif/sched"
	"github.com/xelaj/mtproto/zverif/sess"
	"github.com/xelaj/mtproto/zverif/vr"
)

type ev struct {
	// warns/handled: how many warnings / handler calls a well-formed event causes when no / a handler is registered
	updates int
	name    string
	content bool
	body    func(w *sess.World) []byte
	raw     func(w *sess.World) rpcsrv.Event // non-message events (close, error frame, parity)
	// wellFormed: service traffic the statement says is handled silently / via warning / handler
	wellFormed bool
	handler    bool
}

func w() *tlw.W { return &tlw.W{} }

func container(items ...[]byte) []byte {
	b := w().U32(0x73f1f8dc).U32(uint32(len(items)))
	for i, it := range items {
		b.I64(int64(1600000100)<<32 | int64(i*4+1)).I32(int32(2*i + 1)).I32(int32(len(it))).Raw(it)
	}
	return b.B
}

func alphabet() []ev {
	update := func(tag int32) []byte { return w().U32(rpcsrv.ResID).I32(tag).B }
	unknownID := int64(1600000000)<<32 | 0x7770
	return []ev{
		{name: "pong", content: true, wellFormed: true, body: func(*sess.World) []byte { return w().U32(0x347773c5).I64(unknownID).I64(7).B }},
		{name: "msgs_ack", wellFormed: true, body: func(*sess.World) []byte { return w().U32(0x62d6b459).VecI64([]int64{unknownID}).B }},
		{name: "new_session_created", content: true, wellFormed: true, body: func(x *sess.World) []byte { return w().U32(0x9ec20908).I64(unknownID).I64(99).I64(x.Srv.Salt).B }},
		{name: "update", updates: 1, content: true, wellFormed: true, body: func(*sess.World) []byte { return update(900) }},
		{name: "update+handler", updates: 1, content: true, wellFormed: true, handler: true, body: func(*sess.World) []byte { return update(901) }},
		{name: "gzip(update)", updates: 1, content: true, wellFormed: true, body: func(*sess.World) []byte { return rpcsrv.Gzip(update(902)) }},
		{name: "gzip(empty-stream)", content: true, body: func(*sess.World) []byte { return rpcsrv.Gzip(nil) }},
		{name: "gzip(bad-deflate)", content: true, body: func(*sess.World) []byte {
			g := rpcsrv.Gzip(update(905)) // keep the gzip header, break the deflate stream behind it
			for i := 18; i < len(g)-8 && i < 40; i++ {
				g[i] ^= 0xa5
			}
			return g
		}},
		{name: "gzip(not-gzip)", content: true, body: func(*sess.World) []byte { return w().U32(0x3072cfa1).Str([]byte("definitely not gzip")).B }},
		{name: "rpc_result(gzip(empty-stream))", content: true, body: func(*sess.World) []byte {
			return w().U32(0xf35c6d01).I64(unknownID).Raw(rpcsrv.Gzip(nil)).B
		}},
		{name: "empty-container", wellFormed: true, body: func(*sess.World) []byte { return container() }},
		{name: "container(update,pong)", updates: 1, wellFormed: true, body: func(*sess.World) []byte {
			return container(update(903), w().U32(0x347773c5).I64(unknownID).I64(8).B)
		}},
		{name: "container(container(update))", body: func(*sess.World) []byte { return container(container(update(904))) }},
		{name: "future_salts", content: true, body: func(*sess.World) []byte {
			return w().U32(0xae500895).I64(unknownID).I32(1600000000).U32(1).I32(1600000000).I32(1600003600).I64(5).B
		}},
		{name: "msgs_state_info", body: func(*sess.World) []byte { return w().U32(0x04deb57d).I64(unknownID).Str([]byte{1}).B }},
		{name: "msgs_all_info", body: func(*sess.World) []byte { return w().U32(0x8cc0d131).VecI64([]int64{unknownID}).Str([]byte{1}).B }},
		{name: "msg_detailed_info", content: true, body: func(*sess.World) []byte {
			return w().U32(0x276d3ec6).I64(unknownID).I64(unknownID + 1).I32(12).I32(0).B
		}},
		{name: "msg_new_detailed_info", content: true, body: func(*sess.World) []byte { return w().U32(0x809db6df).I64(unknownID + 1).I32(12).I32(0).B }},
		{name: "bad_server_salt(unknown-id)", body: func(x *sess.World) []byte {
			return w().U32(0xedab447b).I64(unknownID).I32(1).I32(48).I64(x.Srv.Salt).B
		}},
		{name: "bad_msg_notification", body: func(*sess.World) []byte { return w().U32(0xa7eff811).I64(unknownID).I32(1).I32(32).B }},
		{name: "rpc_result(unknown-id)", content: true, body: func(*sess.World) []byte { return rpcsrv.ResultBody(unknownID, 5, rpcsrv.KObj, false) }},
		{name: "rpc_result(answered-id)", content: true, body: func(x *sess.World) []byte {
			// the first accepted request has been answered already when this is emitted (scenario order)
			id := unknownID
			for _, f := range x.Srv.Frames {
				if f.Ctor == rpcsrv.ReqID && !f.Rejected {
					id = f.Msg.MsgID
					break
				}
			}
			return rpcsrv.ResultBody(id, 1, rpcsrv.KObj, false)
		}},
		{name: "rpc_result(rpc_error,unknown-id)", content: true, body: func(*sess.World) []byte { return rpcsrv.ResultBody(unknownID, 5, rpcsrv.KErr, false) }},
		{name: "unregistered-constructor", content: true, body: func(*sess.World) []byte { return w().U32(0xdeadbeef).I32(1).B }},
		{name: "truncated-body", content: true, body: func(*sess.World) []byte {
			b := w().U32(0x9ec20908).I64(unknownID).I64(99).I64(1).B
			return b[:len(b)-4]
		}},
		{name: "client-parity-msg_id", raw: func(x *sess.World) rpcsrv.Event {
			return rpcsrv.Event{Kind: rpcsrv.EvSend, Body: w().U32(0x347773c5).I64(unknownID).I64(7).B, Content: true, MsgIDParity: 4 + 0}
		}},
		{name: "transport-error-frame(-404)", raw: func(*sess.World) rpcsrv.Event { return rpcsrv.Event{Kind: rpcsrv.EvErrorFrame, Code: -404} }},
		{name: "close", wellFormed: true, raw: func(*sess.World) rpcsrv.Event { return rpcsrv.Event{Kind: rpcsrv.EvClose} }},
	}
}

// A history is delivered by the server, in order, as soon as the reader waits;
// each event is materialised when it is emitted (it may depend on earlier traffic).
func scenarioFor(hist []ev) *sess.Scenario {
	names := make([]string, len(hist))
	handler := false
	for i, e := range hist {
		names[i] = e.name
		handler = handler || e.handler
	}
	hasClose := false
	for _, e := range hist {
		hasClose = hasClose || e.name == "close"
	}
	calls := []sess.Call{{Tag: 1, Kind: rpcsrv.KObj}, {Tag: 2, Kind: rpcsrv.KObj, MayFailOnConnLoss: hasClose}}
	if hasClose {
		// a request racing with the connection loss may fail with a connection error or be lost;
		// the statement is about later requests: one more probe after the reconnection is done
		calls = append(calls, sess.Call{Tag: 3, Kind: rpcsrv.KObj, After: func(x *sess.World) bool {
			return len(x.Srv.Queue) == 0 && len(x.Net.Conns) >= 2 && x.Net.Conns[len(x.Net.Conns)-1].Announced() && x.ReaderIdle()
		}})
	}
	sc := &sess.Scenario{Name: "H[" + strings.Join(names, " ; ") + "]", Salt: 31, Handler: handler, Callers: [][]sess.Call{calls}}
	precise, updates := true, 0
	for _, e := range hist {
		precise = precise && e.wellFormed
		updates += e.updates
	}
	if precise {
		if handler {
			expect[sc.Name] = [2]int{0, updates}
		} else {
			expect[sc.Name] = [2]int{updates, 0}
		}
	}
	sc.Setup = func(x *sess.World) {
		// the history starts after the first request has been answered: events are queued behind it
		pending := append([]ev{}, hist...)
		x.Srv.AfterResult = func(s *rpcsrv.Server, tag int32) {
			if tag != 1 {
				return
			}
			for _, e := range pending {
				e := e
				if e.raw != nil {
					r := e.raw(x)
					r.Label = e.name
					s.Queue = append(s.Queue, &rpcsrv.Out{Label: e.name, Kind: -1, Lazy: func() rpcsrv.Event { return r }})
				} else {
					s.Queue = append(s.Queue, &rpcsrv.Out{Label: e.name, Kind: -1, Content: e.content, LazyBody: func() []byte { return e.body(x) }})
				}
			}
			pending = nil
		}
	}
	return sc
}

var _ = binary.LittleEndian

// expect: for histories made of well-formed service traffic only, the exact number of warnings and handler calls.
var expect = map[string][2]int{}

func main() {
	run := vr.New("C16", "model_checking")
	defer run.Recover()
	run.Rule("explicit enumeration of all server-message histories up to depth H over a 24-event alphabet (service constructors, updates with/without handler, unknown/repeated results, unregistered and truncated bodies, containers, gzip, client-parity id, transport error frame, orderly close); each history is delivered after a first answered request and followed by a probe request; every history is executed on the real client under the scheduler for all schedules within the delay bound (D for single-event histories, one less per further event; quick H=2 D=2, thorough H=3 D=3); non-trivial = the whole history was delivered")
	run.Assume("a goroutine panic is recorded as process death (fatal event) and ends the execution", "reconnect after close goes through the dial seam to the same reference server; 'same auth key' is checked by the server opening the frames of the new connection without a plain-text frame")
	// delay bound per history length: a history of L events runs at D-(L-1) delays
	H, D := 2, 2
	budget := 4 * time.Minute
	if run.Thorough() {
		H, D = 3, 3
		budget = 40 * time.Minute
	}
	al := alphabet()
	var hists [][]ev
	var gen func(cur []ev)
	gen = func(cur []ev) {
		if len(cur) > 0 {
			hists = append(hists, append([]ev{}, cur...))
		}
		if len(cur) == H {
			return
		}
		for _, e := range al {
			gen(append(cur, e))
		}
	}
	gen(nil)
	// malformed bodies: every 4-byte-aligned truncation of several well-formed bodies (single-event histories)
	trunc := 0
	for _, base := range []struct {
		name string
		body []byte
	}{
		{"rpc_result(unknown-id)", rpcsrv.ResultBody(int64(1600000000)<<32|0x7770, 5, rpcsrv.KObj, false)},
		{"rpc_result(gzip)", rpcsrv.ResultBody(int64(1600000000)<<32|0x7770, 5, rpcsrv.KObj, true)},
		{"new_session_created", w().U32(0x9ec20908).I64(1).I64(99).I64(31).B},
		{"container(update,pong)", container(w().U32(rpcsrv.ResID).I32(903).B, w().U32(0x347773c5).I64(1).I64(8).B)},
		{"bad_server_salt", w().U32(0xedab447b).I64(1).I32(1).I32(48).I64(31).B},
		{"msgs_ack", w().U32(0x62d6b459).VecI64([]int64{1, 2}).B},
	} {
		for keep := 0; keep < len(base.body); keep += 4 {
			b := append([]byte{}, base.body[:keep]...)
			hists = append(hists, []ev{{name: fmt.Sprintf("truncated(%s,keep=%d)", base.name, keep), content: true, body: func(*sess.World) []byte { return b }}})
			trunc++
		}
	}
	run.Set("truncation_histories", trunc)
	// frames that are no MTProto packet at all, or only the beginning of one: the key id of the session (it is visible
	// on the wire) followed by nothing, by half a message key, by a message key and 0, 1, 2 cipher blocks of
	// garbage, by a tail that is no whole block; the same under another key id; and plain-text frames (key id 0)
	// that are shorter than their own header
	rawn := 0
	for _, kid := range []string{"session-key-id", "other-key-id", "zero-key-id"} {
		for _, n := range []int{5, 8, 12, 20, 24, 28, 40, 41, 56, 72} {
			kid, n := kid, n
			hists = append(hists, []ev{{name: fmt.Sprintf("raw-frame(%s,len=%d)", kid, n), raw: func(x *sess.World) rpcsrv.Event {
				b := make([]byte, n)
				for i := range b {
					b[i] = byte(0x35 + 7*i)
				}
				switch kid {
				case "session-key-id":
					copy(b, mtp1.KeyID(x.Srv.Key))
				case "zero-key-id":
					copy(b, make([]byte, 8))
				}
				return rpcsrv.Event{Kind: rpcsrv.EvRawFrame, Raw: b}
			}}})
			rawn++
		}
	}
	run.Set("raw_frame_histories", rawn)
	var scs []*sess.Scenario
	allow := map[string]bool{}
	for _, h := range hists {
		sc := scenarioFor(h)
		scs = append(scs, sc)
		allow[sc.Name] = true
	}
	// the Warnings channel is optional: every single-event history once more for an application that did not set
	// one (what would have been surfaced there is dropped; nothing may block on it)
	for _, e := range al {
		base := scenarioFor([]ev{e})
		nw := *base
		nw.Name = "W" + base.Name[1:] // W[...]: no warnings channel
		nw.NoWarnings = true
		delete(expect, nw.Name)
		scs = append(scs, &nw)
		allow[nw.Name] = true
	}
	// freshly keyed session: the requests of the key exchange were registered like any other, so their msg_ids
	// are "already answered ids" of this process; a server message addressed to one of them must be as
	// harmless as one for an unknown id
	for k := 0; k < 3; k++ {
		k := k
		hsID := func(x *sess.World) int64 {
			n := 0
			for _, f := range x.Srv.Frames {
				if f.Plain {
					if n == k {
						return f.Msg.MsgID
					}
					n++
				}
			}
			return int64(1600000000)<<32 | 0x7770
		}
		for _, e := range []ev{
			{name: fmt.Sprintf("rpc_result(key-exchange-request#%d)", k), content: true, body: func(x *sess.World) []byte { return rpcsrv.ResultBody(hsID(x), 5, rpcsrv.KObj, false) }},
			{name: fmt.Sprintf("bad_server_salt(key-exchange-request#%d)", k), body: func(x *sess.World) []byte {
				return w().U32(0xedab447b).I64(hsID(x)).I32(1).I32(48).I64(x.Srv.Salt).B
			}},
		} {
			base := scenarioFor([]ev{e})
			f := hs.Scenario("F"+base.Name[1:], hs.Base(), 5)
			f.Callers, f.Handler, f.Setup = base.Callers, base.Handler, base.Setup
			scs = append(scs, f)
			allow[f.Name] = true
		}
	}
	// the client's own keep-alive ping (the ticker fires before the first request) and pongs that name it: the
	// server's regular pong, then the same pong again, alone or with other traffic in between
	{
		pingID := func(x *sess.World) (int64, bool) {
			for _, f := range x.Srv.Frames {
				if f.Ctor == 0x7abe77ec {
					return f.Msg.MsgID, true
				}
			}
			return int64(1600000000)<<32 | 0x7770, false
		}
		pongPing := ev{name: "pong(keep-alive-ping)", content: true, body: func(x *sess.World) []byte {
			id, _ := pingID(x)
			return w().U32(0x347773c5).I64(id).I64(0xCADACADA).B
		}}
		resultPing := ev{name: "rpc_result(keep-alive-ping,pong)", content: true, body: func(x *sess.World) []byte {
			id, _ := pingID(x)
			return w().U32(0xf35c6d01).I64(id).U32(0x347773c5).I64(id).I64(0xCADACADA).B
		}}
		for _, h := range [][]ev{{pongPing}, {pongPing, pongPing}, {pongPing, al[3], pongPing}, {resultPing}, {resultPing, resultPing}, {resultPing, pongPing}, {pongPing, resultPing}} {
			base := scenarioFor(h)
			k := *base
			k.Name = "K" + base.Name[1:]
			k.Ticks = 1
			k.Callers = [][]sess.Call{append([]sess.Call{}, base.Callers[0]...)}
			k.Callers[0][0].After = func(x *sess.World) bool { _, ok := pingID(x); return ok }
			delete(expect, k.Name)
			scs = append(scs, &k)
			allow[k.Name] = true
		}
	}
	run.Set("history_depth", H)
	run.Set("histories", len(hists))
	run.Set("alphabet", func() []string {
		var n []string
		for _, e := range al {
			n = append(n, e.name)
		}
		return n
	}())
	run.Set("delay_bound", D)
	run.Sample(map[string]any{"history": []string{"rpc_result(answered-id)", "close"}, "then": "probe request tag 2 must complete"})
	(&sess.XSpec{Run: run, Scenarios: scs, Budget: budget, Batch: true, FreeSet: run.ID,
		Bounds: func(sc *sess.Scenario) sched.Bounds {
			// each further event of a history costs one delay
			d := max(D-strings.Count(sc.Name, " ; "), 0)
			if sc.Name == "H[close ; close]" {
				d = D // the second reconnect is where a leaked routine of the first one shows: full delay bound
			}
			if strings.HasPrefix(sc.Name, "W[") {
				d = max(d-1, 0) // same histories as H[...], one delay less
			}
			if strings.HasPrefix(sc.Name, "F[") {
				d = max(d-1, 0) // every execution repeats the key exchange
			}
			return sched.Bounds{Preemptions: -1, Delays: d, EnvDev: 0}
		},
		Judge:                  judge,
		NonTrivial:             func(x *sess.World) bool { return len(x.Srv.Queue) == 0 },
		AllowSingleObservation: allow,
	}).Main()
}

func judge(run *vr.Run, sc *sess.Scenario, x *sess.World, choices []int) {
	rep := sess.Replay(sc, choices)
	last := "none"
	if n := len(x.Srv.Emitted); n > 0 {
		last = strings.TrimPrefix(x.Srv.Emitted[n-1], "plain:")
	}
	if x.ConnErr != nil {
		run.Violation("connect-error", sc.Name+": "+x.ConnErr.Error(), rep)
		return
	}
	if x.Outcome == sched.StepLimit {
		run.Violation("livelock|after="+last, sc.Name+": step limit reached (the loop spins)", rep)
		return
	}
	if x.Fatal != nil {
		run.Violation(fmt.Sprintf("dies|%s|%s|after=%s", x.Fatal.Frame, vr.MsgClass(lastSeg(x.Fatal.Msg)), last),
			fmt.Sprintf("%s: goroutine %s panics => process death: %s (in %s) after the server sent %q", sc.Name, x.Fatal.Thread, x.Fatal.Msg, x.Fatal.Frame, last), rep)
		return
	}
	if st := x.Stalled(); len(st) == 1 && strings.HasPrefix(st[0], "caller0:recv") && lostWrites(x) {
		// the probe was written into a connection the server had already closed: it is lost (the client has no
		// retransmission). The statement is about requests issued after the reconnection; other schedules of
		// this history cover those.
		run.Count("probe_lost_in_half_closed_connection", 1)
		return
	}
	if st := x.Stalled(); len(st) > 0 {
		run.Violation("stall|"+sess.StallClass(st)+"|after="+last, fmt.Sprintf("%s: blocked forever: %v; emitted %v", sc.Name, st, x.Srv.Emitted), rep)
		return
	}
	for _, r := range x.Results {
		if v := sess.CheckResult(r); v != "" {
			run.Violation(fmt.Sprintf("probe|%s|op=%d|after=%s", v, r.Op, last), fmt.Sprintf("%s: request tag %d: %s (err=%v); emitted %v", sc.Name, r.Call.Tag, v, r.Err, x.Srv.Emitted), rep)
		}
	}
	if want, ok := expect[sc.Name]; ok && len(x.Srv.Queue) == 0 {
		warns := x.Warnings()
		// the statement allows well-formed service traffic to be handled silently, or surfaced as a warning, or
		// given to a registered handler: what is checked is that nothing is surfaced more often than it was sent
		// (an update reaching the handler twice, a warning storm) and that a registered handler is not bypassed
		// by a warning for the same update
		events := strings.Count(sc.Name, " ; ") + 1
		if len(warns) > events || len(x.Handled) > want[1] || (want[1] > 0 && len(x.Handled)+len(warns) > events) {
			run.Violation(fmt.Sprintf("service-traffic|warnings=%d,want=%d|handled=%d,want=%d|after=%s", len(warns), want[0], len(x.Handled), want[1], last),
				fmt.Sprintf("%s: well-formed service traffic produced %d warnings %v and %d handler calls %v for %d events (%d updates)", sc.Name, len(warns), warns, len(x.Handled), x.Handled, events, want[0]+want[1]), rep)
		}
	}
	for _, p := range x.Srv.Problems {
		cls := vr.MsgClass(p)
		if strings.HasPrefix(p, "unexpected plain-text frame") {
			cls = "new-key-exchange-after-close"
		}
		run.Violation("stream|"+cls, sc.Name+": "+p, rep)
	}
}

func lastSeg(s string) string {
	if i := strings.LastIndex(s, ": "); i >= 0 && i+2 < len(s) {
		return s[i+2:]
	}
	return s
}

func lostWrites(x *sess.World) bool {
	for _, c := range x.Net.Conns {
		if c.LostWrites > 0 {
			return true
		}
	}
	return false
}
