// C15 — decoding arbitrary bytes always ends in a value or an error.
// Structure-aware fault enumeration over every registered constructor's valid
// encodings, run in memory-limited worker subprocesses so that an unrecoverable
// allocation failure is attributed to its input.
package main

import (
	"bytes"
	"compress/gzip"
	"encoding/binary"
	"encoding/json"
	"fmt"
	"os"
	"os/exec"
	"path/filepath"
	"reflect"
	"runtime"
	"runtime/metrics"
	"sort"
	"strings"
	"sync"

	"github.com/xelaj/mtproto/internal/encoding/tl"
	"github.com/xelaj/mtproto/internal/mtproto/objects"
	"github.com/xelaj/mtproto/zverif/freepass"
	"github.com/xelaj/mtproto/zverif/ref/tlw"
	"github.com/xelaj/mtproto/zverif/tlx"
	"github.com/xelaj/mtproto/zverif/vr"
)

type job struct {
	Shard, Of int
	From      int64 // skip cases with a smaller sequence number (restart after a crash)
	Progress  string
}

type ctx struct {
	curSeed []byte    // the valid encoding the current cases are derived from
	curWant tl.Object // what it decodes to

	run      *vr.Run
	reg      *tlx.Registry
	seq      int64
	from     int64
	prog     *os.File
	repl     []uint32
	replName []string
	sample   [1]metrics.Sample
	replay   string
}

// allocBytes: cumulative bytes allocated by the process (ReadMemStats flushes the per-P caches, so the
// difference around a call is exact; the worker runs the decoder on one goroutine).
func allocBytes(s *[1]metrics.Sample) uint64 {
	var ms runtime.MemStats
	runtime.ReadMemStats(&ms)
	return ms.TotalAlloc
}

func (c *ctx) replacements() {
	add := func(n string, v uint32) { c.repl = append(c.repl, v); c.replName = append(c.replName, n) }
	add("0", 0)
	add("1", 1)
	add("-1", 0xffffffff)
	add("maxint32", 0x7fffffff)
	add("minint32", 0x80000000)
	add("str-header-16MiB", 0xfffffffe) // bytes fe ff ff ff: string of 2^24-1 bytes announced
	add("str-header-255", 0x000000ff)
	add("vector-id", tlw.Vector)
	add("true-id", tlw.BoolTrue)
	add("false-id", tlw.BoolFalse)
	add("null-id", tlw.Null)
	add("container-id", 0x73f1f8dc)
	add("gzip-id", 0x3072cfa1)
	add("rpc_result-id", 0xf35c6d01)
	add("unregistered-id", 0xdeadbeef)
	// counts whose product with an item size of 4..32 bytes wraps around 2^32 to something small
	add("2^28", 0x10000000)
	add("2^28+1", 0x10000001)
	add("2^29+1", 0x20000001)
	add("2^30+1", 0x40000001)
	add("2^27+1", 0x08000001)
	// an enum member, and structs of two different interfaces
	var enumID, a, b uint32
	for _, e := range c.reg.Entries {
		switch {
		case e.Enum && enumID == 0:
			enumID = e.CRC
		case e.IsStruct() && strings.HasSuffix(e.Name(), "telegram.InputPeerUser"):
			a = e.CRC
		case e.IsStruct() && strings.HasSuffix(e.Name(), "telegram.InputUserSelf"):
			b = e.CRC
		}
	}
	add("enum-member-id", enumID)
	add("struct-id(InputPeerUser)", a)
	add("struct-id(InputUserSelf)", b)
}

type entryPoint struct {
	name string
	f    func(data []byte, e *tlx.Entry) error
}

var wrongHint = reflect.TypeOf([]int64{})

func entryPoints() []entryPoint {
	return []entryPoint{
		{"Decode(named)", func(data []byte, e *tlx.Entry) error {
			if !e.IsStruct() {
				return nil
			}
			return tl.Decode(data, reflect.New(e.Type.Elem()).Interface())
		}},
		{"DecodeUnknownObject", func(data []byte, e *tlx.Entry) error { _, err := tl.DecodeUnknownObject(data); return err }},
		{"DecodeUnknownObject(hint)", func(data []byte, e *tlx.Entry) error {
			_, err := tl.DecodeUnknownObject(data, wrongHint, reflect.SliceOf(e.Type))
			return err
		}},
	}
}

func (c *ctx) one(e *tlx.Entry, class, id string, data []byte, gz bool) {
	c.seq++
	if c.seq < c.from {
		return
	}
	c.run.Begin(class, id, nil)
	defer c.run.End()
	if c.prog != nil {
		// announce before running: an unrecoverable runtime failure is attributed to this case
		rec := fmt.Sprintf("%020d %s\n", c.seq, id)
		c.prog.WriteAt([]byte(rec), 0)
	}
	for _, ep := range entryPoints() {
		cid := ep.name + "|" + id
		before := allocBytes(&c.sample)
		var err error
		p, pm, fr := vr.Try(func() { err = ep.f(data, e) })
		after := allocBytes(&c.sample)
		c.run.Eval(cid, true)
		rep := map[string]any{"entry": ep.name, "case": id, "data_hex": fmt.Sprintf("%x", data[:min(len(data), 96)]), "len": len(data)}
		if p {
			c.run.Outcome("panic")
			c.run.Violation(fmt.Sprintf("%s|panic|%s|%s|%s", ep.name, vr.MsgClass(pm), fr, class), fmt.Sprintf("%s: panic: %s in %s", cid, pm, fr), rep)
			continue
		}
		if err != nil {
			c.run.Outcome("error")
		} else {
			c.run.Outcome("value")
		}
		if d := after - before; !gz && d > 256<<10+uint64(64*len(data)) {
			c.run.Violation(fmt.Sprintf("%s|allocation|%s", ep.name, class), fmt.Sprintf("%s: decoding %d bytes allocated %d bytes", cid, len(data), d), rep)
		}
	}
	// what a refused (or accepted) input leaves behind must not disturb the next decoding: the valid encoding this
	// case was derived from is decoded again and must still give the value it gave before any fault was tried
	if c.curSeed != nil {
		var got tl.Object
		var err error
		p, pm, fr := vr.Try(func() { got, err = tl.DecodeUnknownObject(c.curSeed) })
		rep := map[string]any{"entry": "DecodeUnknownObject", "case": id, "data_hex": fmt.Sprintf("%x", data[:min(len(data), 96)]), "len": len(data), "then": "valid encoding decoded again"}
		switch {
		case p:
			c.run.Violation(fmt.Sprintf("after-a-fault|valid-input-panics|%s|%s|%s", vr.MsgClass(pm), fr, class), fmt.Sprintf("%s: the valid encoding decoded right after this case panics: %s in %s", id, pm, fr), rep)
		case err != nil:
			c.run.Violation("after-a-fault|valid-input-refused|"+class, fmt.Sprintf("%s: the valid encoding decoded right after this case is refused: %v", id, err), rep)
		case !reflect.DeepEqual(got, c.curWant):
			c.run.Violation("after-a-fault|valid-input-decodes-differently|"+class, fmt.Sprintf("%s: the valid encoding decoded right after this case gives another value than before", id), rep)
		}
	}
}

func (c *ctx) seeds(e *tlx.Entry) [][]byte {
	g := &tlx.Gen{R: c.reg}
	var out [][]byte
	for _, minimal := range []bool{false, true} {
		if v, ok := g.Build(e.Type, 2, minimal); ok {
			if b, err := tl.Marshal(v.Interface()); err == nil {
				out = append(out, b)
			}
		}
	}
	return out
}

func (c *ctx) forEntry(e *tlx.Entry) {
	name := e.Name()
	if e.Enum {
		b := binary.LittleEndian.AppendUint32(nil, e.CRC)
		c.one(e, "enum-id-alone", name+"|id-alone", b, false)
		c.one(e, "enum-id+garbage", name+"|id+word", append(b, 1, 0, 0, 0), false)
		return
	}
	if !e.IsStruct() {
		return
	}
	defer func() { c.curSeed, c.curWant = nil, nil }()
	for si, seed := range c.seeds(e) {
		base := fmt.Sprintf("%s|seed%d", name, si)
		c.curSeed, c.curWant = nil, nil
		if want, err := tl.DecodeUnknownObject(seed); err == nil {
			c.curSeed, c.curWant = seed, want
		}
		for l := 0; l < len(seed) && l <= 200; l++ {
			c.one(e, "truncate", fmt.Sprintf("%s|truncate=%d", base, l), seed[:l], false)
		}
		words := len(seed) / 4
		maxWords := 48
		if c.run.Thorough() {
			maxWords = 400
		}
		if words > maxWords {
			words = maxWords
		}
		for w := 0; w < words; w++ {
			for ri, r := range c.repl {
				if binary.LittleEndian.Uint32(seed[4*w:]) == r {
					continue
				}
				m := append([]byte{}, seed...)
				binary.LittleEndian.PutUint32(m[4*w:], r)
				pos := "field-word"
				if w == 0 {
					pos = "constructor-id"
				}
				c.one(e, pos+"<-"+c.replName[ri], fmt.Sprintf("%s|word%d=%s", base, w, c.replName[ri]), m, false)
			}
		}
		if !c.run.Thorough() {
			continue
		}
		// thorough: two faults at once among the first 16 words (a count and the data it counts, a length and
		// a nested id, ...) over the 9 most hostile replacements; and single bytes, which reach string headers
		// and flags at unaligned positions
		hostile := []int{0, 2, 3, 4, 5, 7, 11, 12, 14} // 0, -1, maxint32, minint32, 16 MiB header, vector id, container id, gzip id, unregistered id
		w2 := len(seed) / 4
		if w2 > 16 {
			w2 = 16
		}
		for a := 0; a < w2; a++ {
			for b := a + 1; b < w2; b++ {
				for _, ra := range hostile {
					for _, rb := range hostile {
						m := append([]byte{}, seed...)
						binary.LittleEndian.PutUint32(m[4*a:], c.repl[ra])
						binary.LittleEndian.PutUint32(m[4*b:], c.repl[rb])
						c.one(e, "two-words<-"+c.replName[ra]+"+"+c.replName[rb], fmt.Sprintf("%s|word%d=%s|word%d=%s", base, a, c.replName[ra], b, c.replName[rb]), m, false)
					}
				}
			}
		}
		for i := 4; i < len(seed) && i < 96; i++ {
			for _, v := range []byte{0x00, 0x7f, 0x80, 0xfe, 0xff} {
				if seed[i] == v {
					continue
				}
				m := append([]byte{}, seed...)
				m[i] = v
				c.one(e, fmt.Sprintf("byte<-%02x", v), fmt.Sprintf("%s|byte%d=%02x", base, i, v), m, false)
			}
		}
	}
}

func (c *ctx) specials() {
	e := c.reg.ByCRC[0x73f1f8dc]
	if e == nil {
		e = c.reg.Entries[0]
	}
	w := func() *tlw.W { return &tlw.W{} }
	pong := w().U32(0x347773c5).I64(1).I64(2).B
	for _, cnt := range []uint32{0, 1, 2, 0xffffffff, 0x80000000, 0x7fffffff, 3, 0x10000000, 0x10000001, 0x10000002, 0x20000001, 0x40000001, 0x08000001, 0x70000001} {
		for _, size := range []uint32{uint32(len(pong)), 0, 0xffffffff, 0x80000000, 0x7fffffff, uint32(len(pong)) + 1, uint32(len(pong)) - 1} {
			b := w().U32(0x73f1f8dc).U32(cnt).I64(5).I32(1).U32(size).Raw(pong).B
			c.one(e, fmt.Sprintf("container|count=%s,size=%s", numClass(cnt, 1), numClass(size, uint32(len(pong)))), fmt.Sprintf("container|count=%#x|size=%#x", cnt, size), b, false)
		}
	}
	// vectors with counts that do not match the data, through rpc_result with a hint-free and hinted decoder
	for _, cnt := range []uint32{0, 1, 2, 3, 0xffffffff, 0x80000000, 0x7fffffff, 0x01000000, 0x10000000, 0x10000001, 0x10000002, 0x20000001, 0x20000002, 0x40000001, 0x40000002, 0x08000001, 0x70000001} {
		// future_salts: a bare vector of 16-byte items
		b0 := w().U32(0xae500895).I64(9).I32(1).U32(cnt).I32(1).I32(2).I64(3).I32(4).I32(5).I64(6).B
		c.one(e, "future_salts|count="+numClass(cnt, 2), fmt.Sprintf("future_salts|count=%#x", cnt), b0, false)
		b := w().U32(0xf35c6d01).I64(9).U32(tlw.Vector).U32(cnt).I64(1).I64(2).B
		c.one(e, "rpc_result(vector)|count="+numClass(cnt, 2), fmt.Sprintf("rpc_result-vector|count=%#x", cnt), b, false)
		b2 := w().U32(tlw.Vector).U32(cnt).I64(1).I64(2).B
		c.one(e, "bare-vector|count="+numClass(cnt, 2), fmt.Sprintf("vector|count=%#x", cnt), b2, false)
		// a constructor whose first field is a vector: msgs_ack
		b3 := w().U32(0x62d6b459).U32(tlw.Vector).U32(cnt).I64(1).I64(2).B
		c.one(e, "msgs_ack|count="+numClass(cnt, 2), fmt.Sprintf("msgs_ack|count=%#x", cnt), b3, false)
	}
	// more implicit vectors in the data than hints given: DecodeUnknownObject(data, hints...) with 0..2 hints
	for depth := 1; depth <= 3; depth++ {
		// vector of rpc_result whose result is again a vector of rpc_result ... ending in a vector of longs
		inner := w().U32(tlw.Vector).U32(1).I64(7).B
		for d := 1; d < depth; d++ {
			inner = w().U32(tlw.Vector).U32(1).U32(0xf35c6d01).I64(int64(d)).Raw(inner).B
		}
		for nh := 0; nh <= 2; nh++ {
			c.hinted(e, fmt.Sprintf("nested-vectors|depth=%d|hints=%d", depth, nh), inner, nh)
		}
		c.hinted(e, fmt.Sprintf("rpc_result(nested-vectors)|depth=%d|hints=1", depth), w().U32(0xf35c6d01).I64(1).Raw(inner).B, 1)
	}
	// every list of 0..2 hints over element types {a registered struct, tl.Object, any, long} x vectors whose items
	// are vectors again (boxed: the item starts with the vector id), an object followed by a vector, objects only
	{
		var obj tl.Object
		hintTypes := []reflect.Type{reflect.TypeOf([]*objects.RpcResult{}), reflect.SliceOf(reflect.TypeOf(&obj).Elem()), reflect.TypeOf([]any{}), reflect.TypeOf([]int64{}), reflect.TypeOf([]*objects.Pong{})}
		longs := w().U32(tlw.Vector).U32(2).I64(7).I64(8).B
		shapes := map[string][]byte{
			"vec(long,long)":           longs,
			"vec(vec(long,long))":      w().U32(tlw.Vector).U32(1).Raw(longs).B,
			"vec(vec,vec)":             w().U32(tlw.Vector).U32(2).Raw(longs).Raw(longs).B,
			"vec(vec(vec(long,long)))": w().U32(tlw.Vector).U32(1).U32(tlw.Vector).U32(1).Raw(longs).B,
			"vec(pong,vec)":            w().U32(tlw.Vector).U32(2).Raw(pong).Raw(longs).B,
			"vec(pong,pong)":           w().U32(tlw.Vector).U32(2).Raw(pong).Raw(pong).B,
			"vec(empty-vec)":           w().U32(tlw.Vector).U32(1).U32(tlw.Vector).U32(0).B,
			"rpc_result(vec(vec))":     w().U32(0xf35c6d01).I64(1).U32(tlw.Vector).U32(1).Raw(longs).B,
		}
		names := make([]string, 0, len(shapes))
		for n := range shapes {
			names = append(names, n)
		}
		sort.Strings(names)
		var lists [][]reflect.Type
		lists = append(lists, nil)
		for _, a := range hintTypes {
			lists = append(lists, []reflect.Type{a})
			for _, b := range hintTypes {
				lists = append(lists, []reflect.Type{a, b})
			}
		}
		for _, n := range names {
			for _, l := range lists {
				hn := make([]string, len(l))
				for i, t := range l {
					hn[i] = t.String()
				}
				c.hintedWith(fmt.Sprintf("hint-lists|%s|hints=[%s]", n, strings.Join(hn, ",")), shapes[n], l)
			}
		}
	}
	// gzip bodies
	gz := func(p []byte) []byte {
		var buf bytes.Buffer
		zw := gzip.NewWriter(&buf)
		zw.Write(p)
		zw.Close()
		return buf.Bytes()
	}
	good := gz(pong)
	for name, body := range map[string][]byte{
		"valid": good, "truncated": good[:len(good)/2], "not-gzip": []byte("this is not gzip data...."), "empty": {},
		"gzip(vector)": gz(w().U32(tlw.Vector).U32(2).I64(1).I64(2).B), "gzip(gzip)": gz(w().U32(0x3072cfa1).Str(good).B),
		"gzip(garbage)": gz([]byte{1, 2, 3, 4, 5, 6, 7, 8}), "gzip(empty)": gz(nil),
	} {
		c.one(e, "gzip|"+name, "gzip|"+name, w().U32(0x3072cfa1).Str(body).B, true)
		c.one(e, "rpc_result(gzip)|"+name, "rpc_result-gzip|"+name, w().U32(0xf35c6d01).I64(3).U32(0x3072cfa1).Str(body).B, true)
	}
	for l := 0; l <= 16; l++ {
		c.one(e, "raw-short", fmt.Sprintf("raw|zeros=%d", l), make([]byte, l), false)
	}
}

func numClass(v, exact uint32) string {
	switch {
	case v == exact:
		return "exact"
	case v == exact+1:
		return "exact+1"
	case v+1 == exact:
		return "exact-1"
	case v == 0:
		return "0"
	case v == 0xffffffff:
		return "-1"
	case v == 0x80000000:
		return "minint32"
	case v == 0x7fffffff:
		return "maxint32"
	case v > 1<<20:
		return "huge"
	}
	return "small"
}

func worker(run *vr.Run) {
	var j job
	if err := json.Unmarshal([]byte(run.Job()), &j); err != nil {
		vr.HarnessError("job: %v", err)
	}
	runtime.GOMAXPROCS(1)
	c := &ctx{run: run, reg: tlx.Load(), from: j.From}
	c.sample[0].Name = "/gc/heap/allocs:bytes"
	c.replacements()
	if j.Progress != "" {
		c.prog, _ = os.OpenFile(j.Progress, os.O_CREATE|os.O_WRONLY, 0o644)
	}
	for i, e := range c.reg.Entries {
		if i%j.Of == j.Shard {
			c.forEntry(e)
		}
	}
	if j.Shard == 0 {
		c.specials()
	}
	run.FinishWorker(map[string]any{"cases": c.seq})
}

func main() {
	run := vr.New("C15", "fault_enumeration")
	defer run.Recover()
	if run.IsWorker() {
		worker(run)
	}
	if run.ReplayPath != "" {
		var r struct {
			Entry, Case, Data_hex string
		}
		freepass.MaybeReplay(run)
		run.LoadReplay(&r)
		fmt.Println("replay of", r.Entry, r.Case, "— re-run the quick tier; the case id is deterministic")
		run.Finish()
	}
	run.Rule("for every registered constructor: its valid base encodings (all fields set / mandatory only) x every prefix truncation x every 32-bit word position x a replacement alphabet of 18 values (boundary integers, 16 MiB string header, vector/Bool/null ids, container/gzip/rpc_result ids, an enum member id, struct ids of two interfaces, an unregistered id); containers and vectors with counts/sizes in {0,1,exact+-1,-1,2^31-1,2^31,2^24}; gzip bodies {valid, truncated, not gzip, empty, vector, nested, garbage}; through Decode(named type), DecodeUnknownObject and DecodeUnknownObject with hints; thorough tier: word positions up to the 400th, every pair of faults among the first 16 words over 9 hostile values, every byte 4..95 x {00,7f,80,fe,ff}; non-trivial = distinct mutated input")
	run.Assume("allocation bound: 256 KiB + 64 bytes per input byte per decode call, except below gzip_packed", "workers run under ulimit -v so that a runaway allocation kills the worker, not the machine; the case announced last is blamed")
	workers := 16
	dir := os.Getenv("VERIF_BUILD")
	if dir == "" {
		dir = os.TempDir()
	}
	var mu sync.Mutex
	var wg sync.WaitGroup
	var total int64
	for s := 0; s < workers; s++ {
		wg.Add(1)
		go func(s int) {
			defer wg.Done()
			from := int64(0)
			prog := filepath.Join(dir, fmt.Sprintf("c15-progress-%d", s))
			for attempt := 0; attempt < 12; attempt++ {
				os.Remove(prog)
				jb, _ := json.Marshal(job{Shard: s, Of: workers, From: from, Progress: prog})
				cmd := exec.Command("sh", "-c", `ulimit -v 6000000 2>/dev/null; exec "$0" --tier "$1" --job "$2"`, os.Args[0], run.Tier, string(jb))
				var out, errb bytes.Buffer
				cmd.Stdout, cmd.Stderr = &out, &errb
				err := cmd.Run()
				if err == nil {
					mu.Lock()
					extra := run.Merge(lastLine(out.Bytes()))
					if n, ok := extra["cases"].(float64); ok {
						total += int64(n)
					}
					mu.Unlock()
					return
				}
				// the worker died: blame the announced case and restart after it
				pb, _ := os.ReadFile(prog)
				line := strings.SplitN(string(pb), "\n", 2)[0]
				var seq int64
				var id string
				if n, _ := fmt.Sscanf(line, "%d", &seq); n != 1 {
					vr.HarnessError("worker %d died before announcing a case: %v\n%s", s, err, tail(errb.String()))
				}
				if i := strings.IndexByte(line, ' '); i >= 0 {
					id = line[i+1:]
				}
				why := "killed"
				es := errb.String()
				switch {
				case strings.Contains(es, "out of memory"), strings.Contains(es, "cannot allocate memory"):
					why = "fatal error: out of memory"
				case strings.Contains(es, "did not return from case"):
					why = "the decoder never returns"
				case strings.Contains(es, "stack overflow"), strings.Contains(es, "goroutine stack exceeds"):
					why = "fatal error: stack overflow"
				case strings.Contains(es, "fatal error"):
					why = "fatal error"
				}
				mu.Lock()
				run.Eval("crash|"+id, true)
				run.Violation("process-death|"+why+"|"+crashClass(id), fmt.Sprintf("decoding case %q kills the process (%s): %s", id, why, firstLines(es, 3)), map[string]any{"case": id})
				mu.Unlock()
				from = seq + 1
			}
			mu.Lock()
			run.Truncated(fmt.Sprintf("shard %d abandoned after 12 process deaths (each is reported); the rest of the shard was not explored", s))
			mu.Unlock()
		}(s)
	}
	wg.Wait()
	freepass.Run(run, run.ID, freepass.Rounds(run))
	run.Set("mutated_inputs", total)
	run.Sample(map[string]any{"case": "telegram.PollResults|seed0|word3=str-header-16MiB", "entry": "DecodeUnknownObject"})
	run.Sample(map[string]any{"case": "msgs_ack|count=0x7fffffff", "entry": "DecodeUnknownObject"})
	run.Finish()
}

func crashClass(id string) string {
	p := strings.Split(id, "|")
	last := p[len(p)-1]
	if i := strings.IndexByte(last, '='); i >= 0 && strings.HasPrefix(last, "word") {
		return "word<-" + last[i+1:]
	}
	if len(p) >= 2 {
		return p[0] + "|" + last
	}
	return id
}

func lastLine(b []byte) []byte {
	b = bytes.TrimRight(b, "\n")
	if i := bytes.LastIndexByte(b, '\n'); i >= 0 {
		return b[i+1:]
	}
	return b
}

func tail(s string) string {
	if len(s) > 2000 {
		return s[len(s)-2000:]
	}
	return s
}

func firstLines(s string, n int) string {
	l := strings.Split(s, "\n")
	if len(l) > n {
		l = l[:n]
	}
	return strings.Join(l, " / ")
}

// hinted decodes data through DecodeUnknownObject with nh hints of type []*objects.RpcResult.
func (c *ctx) hinted(e *tlx.Entry, id string, data []byte, nh int) {
	hints := make([]reflect.Type, nh)
	for i := range hints {
		hints[i] = reflect.TypeOf([]*objects.RpcResult{})
	}
	c.hintedWith(id, data, hints)
}

func (c *ctx) hintedWith(id string, data []byte, hints []reflect.Type) {
	c.seq++
	if c.seq < c.from {
		return
	}
	if c.prog != nil {
		c.prog.WriteAt([]byte(fmt.Sprintf("%020d %s\n", c.seq, id)), 0)
	}
	var err error
	p, pm, fr := vr.Try(func() { _, err = tl.DecodeUnknownObject(data, hints...) })
	c.run.Eval("hinted|"+id, true)
	_ = err
	if p {
		c.run.Violation(fmt.Sprintf("DecodeUnknownObject(hints)|panic|%s|%s|%s", vr.MsgClass(pm), fr, id), fmt.Sprintf("%s: panic: %s in %s", id, pm, fr), map[string]any{"case": id, "data_hex": fmt.Sprintf("%x", data)})
	}
}
