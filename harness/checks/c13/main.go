// C13 — the shipped API layer is a faithful translation of the shipped TL schema.
// Parts (1)-(3): exhaustive static comparison of every definition with the
// registered Go type (translation validation by enumeration). Part (4): every
// generated client method called end-to-end against the reference server.
package main

import (
	"bytes"
	"fmt"
	"go/ast"
	"go/parser"
	"go/token"
	"os"
	"path/filepath"
	"reflect"
	"sort"
	"strconv"
	"strings"

	"github.com/xelaj/mtproto/internal/encoding/tl"
	"github.com/xelaj/mtproto/telegram"
	"github.com/xelaj/mtproto/zverif/ref/tlschema"
	"github.com/xelaj/mtproto/zverif/tlx"
	"github.com/xelaj/mtproto/zverif/vr"
)

var (
	objectType = reflect.TypeOf((*tl.Object)(nil)).Elem()
	flagGetter = reflect.TypeOf((*tl.FlagIndexGetter)(nil)).Elem()
)

type checker struct {
	run *vr.Run
	sch *tlx.Schemas // both files (ids)
	cur *tlx.Schemas // the file of the definition being compared (type names resolve inside their own schema)
	api *tlx.Schemas
	svc *tlx.Schemas
	reg *tlx.Registry
}

// required: mtproto.tl definitions the client's own flows put on the wire or must understand.
var requiredService = []string{"resPQ", "p_q_inner_data", "server_DH_params_fail", "server_DH_params_ok", "server_DH_inner_data",
	"client_DH_inner_data", "dh_gen_ok", "dh_gen_retry", "dh_gen_fail", "rpc_result", "rpc_error", "pong", "new_session_created",
	"msg_container", "gzip_packed", "msgs_ack", "bad_msg_notification", "bad_server_salt", "req_pq", "req_DH_params", "set_client_DH_params", "ping"}

func main() {
	run := vr.New("C13", "translation_validation")
	defer run.Recover()
	repo := tlx.RepoDir()
	api, err := tlx.LoadSchemas(filepath.Join(repo, "schemes/api_latest.tl"))
	if err != nil {
		vr.HarnessError("%v", err)
	}
	svc, err := tlx.LoadSchemas(filepath.Join(repo, "schemes/mtproto.tl"))
	if err != nil {
		vr.HarnessError("%v", err)
	}
	both, _ := tlx.LoadSchemas(filepath.Join(repo, "schemes/api_latest.tl"), filepath.Join(repo, "schemes/mtproto.tl"))
	c := &checker{run: run, sch: both, api: api, svc: svc, reg: tlx.Load()}
	run.Rule("programs = schema definitions (all of api_latest.tl, every mtproto.tl definition that is registered or that the client's flows need) + the hand-written wrappers + every generated client method; each is compared completely (id = written id = CRC-32 of the canonical line; field order, Go type, flag bit, flags-word position; converse: every registered id is defined); methods are called end-to-end with pairwise distinguishable arguments")
	run.Assume("canonical-line CRC rule as used by Telegram tooling (reproduces all 1195 written ids)", "a boxed type may be represented as interface (implementers = the type's constructors), pointer to the struct of its only constructor, or enum (all constructors parameterless)")
	defs := 0
	c.cur = api
	for _, d := range api.All {
		c.def(d, len(d.TypeParams) == 0) // generic wrappers ({X:Type}) need no registered counterpart
		defs++
	}
	need := map[string]bool{}
	for _, n := range requiredService {
		need[n] = true
	}
	c.cur = svc
	for _, d := range svc.All {
		if !d.HasID {
			continue
		}
		_, registered := c.reg.ByCRC[d.ID]
		if registered || need[d.Name] {
			c.def(d, need[d.Name])
			defs++
		}
	}
	// converse: nothing else is registered
	for _, e := range c.reg.Entries {
		if _, ok := both.ByID[e.CRC]; !ok {
			id := "registered|" + e.Name()
			run.Eval(id, true)
			run.Violation("registered-without-schema-line|"+e.Type.String(), fmt.Sprintf("%s is registered under id %#08x, which no definition of api_latest.tl / mtproto.tl carries", e.Name(), e.CRC), map[string]any{"ID": id})
		}
	}
	c.cur = api
	c.wrappers()
	c.handWritten(filepath.Join(repo, "telegram"))
	run.Set("programs", defs)
	run.Set("disagreements_checked", run.Evals())
	run.Set("definitions", map[string]int{"api_latest.tl": len(api.All), "mtproto.tl(with id)": len(svc.ByID)})
	run.Sample(map[string]any{"definition": "pollResults#badcc1a3 flags:# min:flags.0?true results:flags.1?Vector<PollAnswerVoters> total_voters:flags.2?int recent_voters:flags.3?Vector<int> solution:flags.4?string solution_entities:flags.4?Vector<MessageEntity> = PollResults", "go_type": "telegram.PollResults"})
	methods(run, c)
	run.Finish()
}

func (c *checker) bad(d *tlschema.Def, kind, what string) {
	c.run.Violation(d.Name+"|"+kind, fmt.Sprintf("%s (line %d): %s", d.Name, d.LineNo, what), map[string]any{"ID": d.Name})
}

func (c *checker) def(d *tlschema.Def, mustExist bool) {
	c.run.Eval("def|"+d.Name, true)
	if d.Name != "msg_container" && tlschema.CanonicalCRC(d.Line) != d.ID {
		c.bad(d, "written-id-not-crc", fmt.Sprintf("written id %08x, CRC-32 of the canonical line %08x", d.ID, tlschema.CanonicalCRC(d.Line)))
	}
	e, ok := c.reg.ByCRC[d.ID]
	if !ok {
		if mustExist {
			c.bad(d, "not-registered", fmt.Sprintf("no Go type is registered under id %08x", d.ID))
		}
		return
	}
	if e.Enum {
		if len(d.Params) != 0 {
			c.bad(d, "enum-with-parameters", "registered as enum member but the constructor has parameters")
		}
		return
	}
	if !e.IsStruct() {
		return // hand-written wire form (msg_container): id only
	}
	if _, custom := reflect.New(e.Type.Elem()).Interface().(tl.Marshaler); custom {
		if e.CRC == 0x3072cfa1 {
			return // gzip_packed: hand-written wire form whose bytes are not a function of the value alone; id only
		}
		// a type that codes itself is compared with its schema line through its wire form: a value with
		// pairwise different items must encode to what the line defines, and those bytes must decode to it
		c.selfCoding(d, e)
		return
	}
	st := e.Type.Elem()
	params := d.NonFlagParams()
	fidx := tlx.Fields(st)
	if len(fidx) != len(params) {
		c.bad(d, "field-count", fmt.Sprintf("%s has %d fields, the schema line has %d parameters", st, len(fidx), len(params)))
		return
	}
	for i, p := range params {
		f := st.Field(fidx[i])
		tg := tlx.ParseTag(f)
		if (p.CondBit >= 0) != (tg.Has && tg.Optional) || (p.CondBit >= 0 && tg.Bit != p.CondBit) {
			c.bad(d, "flag-bit|param="+p.Name, fmt.Sprintf("parameter %s is %q, field %s has tag %q", p.Name, p.Raw, f.Name, f.Tag))
		}
		if (p.Type.Name == "true") != tg.InFlags {
			c.bad(d, "true-encoding|param="+p.Name, fmt.Sprintf("parameter %s (%s) vs field %s tag %q", p.Name, p.Type.Raw, f.Name, f.Tag))
		}
		if why := c.typeMismatch(p.Type, f.Type); why != "" {
			c.bad(d, "type|param="+p.Name, fmt.Sprintf("parameter %s:%s is held in field %s %s: %s", p.Name, p.Type.Raw, f.Name, f.Type, why))
		}
	}
	fi := d.FlagsIndex()
	g, isGetter := reflect.New(st).Interface().(tl.FlagIndexGetter)
	switch {
	case fi >= 0 && !isGetter:
		c.bad(d, "flags-position", "schema has a flags word but the type has no FlagIndex()")
	case fi >= 0 && g.FlagIndex() != fi:
		c.bad(d, "flags-position", fmt.Sprintf("flags word is parameter #%d, FlagIndex() = %d", fi, g.FlagIndex()))
	case fi < 0 && isGetter:
		c.bad(d, "flags-position", "type has FlagIndex() but the schema line has no flags word")
	}
}

func (c *checker) selfCoding(d *tlschema.Def, e *tlx.Entry) {
	g := &tlx.Gen{R: c.reg}
	n := 0
	g.Cases(e, 1, func(cs tlx.Case) {
		want, err := c.cur.Encode(cs.V)
		if err != nil {
			return
		}
		n++
		got, merr := tl.Marshal(cs.V.Interface().(tl.Object))
		if merr != nil || !bytes.Equal(got, want) {
			c.bad(d, "self-coding|encodes-differently", fmt.Sprintf("%s: the type codes itself and writes %d bytes where the schema line defines %d (err=%v)", cs.ID, len(got), len(want), merr))
			return
		}
		obj, derr := tl.DecodeUnknownObject(want)
		if derr != nil {
			c.bad(d, "self-coding|refuses-schema-bytes", cs.ID+": "+derr.Error())
			return
		}
		if ok, path := tlx.Equal(tlx.Normalize(cs.V), reflect.ValueOf(obj), ""); !ok {
			c.bad(d, "self-coding|decodes-differently", cs.ID+": the bytes the schema line defines decode to a different value at "+path)
		}
	})
	if n == 0 {
		c.bad(d, "self-coding|no-case", "no value of the type could be built and encoded from the schema line")
	}
}

func (c *checker) typeMismatch(t tlschema.Type, gt reflect.Type) string {
	switch t.Name {
	case "int":
		return kindIs(gt, reflect.Int32)
	case "long":
		return kindIs(gt, reflect.Int64)
	case "double":
		return kindIs(gt, reflect.Float64)
	case "string":
		return kindIs(gt, reflect.String)
	case "Bool", "true":
		return kindIs(gt, reflect.Bool)
	case "bytes":
		if gt.Kind() == reflect.Slice && gt.Elem().Kind() == reflect.Uint8 {
			return ""
		}
		return "want []byte"
	case "int128":
		if gt == reflect.TypeOf(&tl.Int128{}) {
			return ""
		}
		return "want *tl.Int128"
	case "int256":
		if gt == reflect.TypeOf(&tl.Int256{}) {
			return ""
		}
		return "want *tl.Int256"
	case "Vector", "vector":
		if gt.Kind() != reflect.Slice || (gt.Elem().Kind() == reflect.Uint8 && t.Elem.Name != "bytes") {
			return "want a slice"
		}
		if t.Name == "vector" {
			return "bare vector<> is represented like a boxed Vector<>"
		}
		return c.typeMismatch(*t.Elem, gt.Elem())
	case "Object", "X":
		if gt == objectType {
			return ""
		}
		return "want tl.Object"
	}
	// a named type
	cons := c.cur.ByResult[t.Name]
	if t.Bare {
		if d, ok := c.cur.ByName[t.Name]; ok {
			cons = []*tlschema.Def{d}
		}
	}
	if len(cons) == 0 {
		return "type " + t.Name + " has no constructors in the schema"
	}
	ids := map[uint32]bool{}
	for _, d := range cons {
		ids[d.ID] = true
	}
	switch gt.Kind() {
	case reflect.Interface:
		got := map[uint32]bool{}
		for _, e := range c.reg.Implementers(gt) {
			got[e.CRC] = true
		}
		return sameSet(ids, got, "implementers of "+gt.String())
	case reflect.Ptr:
		if gt.Elem().Kind() != reflect.Struct {
			return "unexpected pointer type"
		}
		o, ok := reflect.New(gt.Elem()).Interface().(tl.Object)
		if !ok {
			if t.Bare {
				return "bare constructor held in a struct that is not a TL object"
			}
			return "struct is not a TL object"
		}
		if len(cons) != 1 || !ids[o.CRC()] {
			return fmt.Sprintf("pointer to %s (id %08x) but type %s has constructors %v", gt.Elem(), o.CRC(), t.Name, names(cons))
		}
		return ""
	case reflect.Uint32:
		got := map[uint32]bool{}
		for _, m := range c.reg.EnumMembers(gt) {
			got[m] = true
		}
		for _, d := range cons {
			if len(d.Params) != 0 {
				return "enum Go type but constructor " + d.Name + " has parameters"
			}
		}
		return sameSet(ids, got, "members of "+gt.String())
	}
	return "unexpected Go kind " + gt.Kind().String()
}

func names(ds []*tlschema.Def) []string {
	var n []string
	for _, d := range ds {
		n = append(n, d.Name)
	}
	sort.Strings(n)
	return n
}

func sameSet(want, got map[uint32]bool, what string) string {
	var miss, extra []string
	for id := range want {
		if !got[id] {
			miss = append(miss, fmt.Sprintf("%08x", id))
		}
	}
	for id := range got {
		if !want[id] {
			extra = append(extra, fmt.Sprintf("%08x", id))
		}
	}
	if len(miss)+len(extra) == 0 {
		return ""
	}
	sort.Strings(miss)
	sort.Strings(extra)
	return fmt.Sprintf("%s: missing %v, extra %v", what, miss, extra)
}

func kindIs(gt reflect.Type, k reflect.Kind) string {
	if gt.Kind() == k {
		return ""
	}
	return "want kind " + k.String()
}

// handWritten reads the hand-written sources of package telegram (everything that is not *_gen.go): every type
// there that declares its own constructor id (a CRC method returning a literal) and is named after a schema
// definition (Name or NameParams) must carry that definition's id and have one field per parameter; no two of
// them may carry one id. These types are not registered with the decoder, so the registry does not show them.
func (c *checker) handWritten(dir string) {
	fset := token.NewFileSet()
	pkgs, err := parser.ParseDir(fset, dir, func(fi os.FileInfo) bool {
		return !strings.HasSuffix(fi.Name(), "_gen.go") && !strings.HasSuffix(fi.Name(), "_test.go")
	}, 0)
	if err != nil {
		vr.HarnessError("parsing %s: %v", dir, err)
	}
	fields := map[string]int{}
	ids := map[string]uint32{}
	for _, pkg := range pkgs {
		for _, f := range pkg.Files {
			for _, dcl := range f.Decls {
				switch v := dcl.(type) {
				case *ast.GenDecl:
					for _, sp := range v.Specs {
						if ts, ok := sp.(*ast.TypeSpec); ok {
							if st, ok := ts.Type.(*ast.StructType); ok {
								n := 0
								for _, fl := range st.Fields.List {
									n += max(1, len(fl.Names))
								}
								fields[ts.Name.Name] = n
							}
						}
					}
				case *ast.FuncDecl:
					if v.Name.Name != "CRC" || v.Recv == nil || len(v.Recv.List) != 1 || v.Body == nil || len(v.Body.List) != 1 {
						continue
					}
					rt := v.Recv.List[0].Type
					if se, ok := rt.(*ast.StarExpr); ok {
						rt = se.X
					}
					id, ok := rt.(*ast.Ident)
					ret, ok2 := v.Body.List[0].(*ast.ReturnStmt)
					if !ok || !ok2 || len(ret.Results) != 1 {
						continue
					}
					lit, ok := ret.Results[0].(*ast.BasicLit)
					if !ok {
						continue
					}
					n, err := strconv.ParseUint(lit.Value, 0, 32)
					if err == nil {
						ids[id.Name] = uint32(n)
					}
				}
			}
		}
	}
	byID := map[uint32]string{}
	names := make([]string, 0, len(ids))
	for n := range ids {
		names = append(names, n)
	}
	sort.Strings(names)
	matched := 0
	for _, goName := range names {
		id := ids[goName]
		if o, dup := byID[id]; dup {
			c.run.Violation("hand-written|two-types-one-id|"+o+"+"+goName, fmt.Sprintf("hand-written types %s and %s both carry id %08x", o, goName, id), nil)
		}
		byID[id] = goName
		base := strings.TrimSuffix(goName, "Params")
		d, ok := c.sch.ByName[strings.ToLower(base[:1])+base[1:]]
		if !ok {
			continue
		}
		matched++
		c.run.Eval("hand-written|"+goName, true)
		if id != d.ID {
			c.bad(d, "hand-written-id|"+goName, fmt.Sprintf("%s carries id %08x, the schema gives %s#%08x", goName, id, d.Name, d.ID))
		}
		if nf, ok := fields[goName]; ok && nf != len(d.NonFlagParams()) {
			c.bad(d, "hand-written-field-count|"+goName, fmt.Sprintf("%s has %d fields, the schema line has %d parameters", goName, nf, len(d.NonFlagParams())))
		}
	}
	c.run.Set("hand_written_types_with_their_own_id", len(ids))
	c.run.Set("hand_written_types_named_after_a_schema_line", matched)
}

// wrappers: the hand-written generic request wrappers against their schema lines.
func (c *checker) wrappers() {
	for name, v := range map[string]tl.Object{
		"initConnection":    &telegram.InitConnectionParams{},
		"invokeWithLayer":   &telegram.InvokeWithLayerParams{},
		"invokeWithTakeout": &telegram.InvokeWithTakeoutParams{},
	} {
		d, ok := c.sch.ByName[name]
		c.run.Eval("wrapper|"+name, true)
		if !ok {
			c.run.Violation("wrapper|"+name+"|no-schema-line", name+" is not in the schema", nil)
			continue
		}
		if v.CRC() != d.ID {
			c.bad(d, "wrapper-id", fmt.Sprintf("%T carries id %08x, the schema gives %s#%08x", v, v.CRC(), name, d.ID))
		}
		st := reflect.TypeOf(v).Elem()
		params := d.NonFlagParams()
		fidx := tlx.Fields(st)
		if len(fidx) != len(params) {
			c.bad(d, "wrapper-field-count", fmt.Sprintf("%s has %d fields, schema has %d parameters", st, len(fidx), len(params)))
			continue
		}
		for i, p := range params {
			f := st.Field(fidx[i])
			tg := tlx.ParseTag(f)
			if (p.CondBit >= 0) != (tg.Has && tg.Optional) || (p.CondBit >= 0 && tg.Bit != p.CondBit) {
				c.bad(d, "wrapper-flag-bit|param="+p.Name, fmt.Sprintf("%s vs tag %q", p.Raw, f.Tag))
			}
			if why := c.typeMismatch(p.Type, f.Type); why != "" {
				c.bad(d, "wrapper-type|param="+p.Name, fmt.Sprintf("%s held in %s %s: %s", p.Raw, f.Name, f.Type, why))
			}
		}
		if fi := d.FlagsIndex(); fi >= 0 {
			if g, ok := v.(tl.FlagIndexGetter); !ok || g.FlagIndex() != fi {
				c.bad(d, "wrapper-flags-position", "flags word position differs")
			}
		}
	}
	_ = strings.ToLower
}
