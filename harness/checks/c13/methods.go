package main

import (
	"bytes"
	"fmt"
	"reflect"
	"strings"
	"time"

	"github.com/xelaj/mtproto"
	"github.com/xelaj/mtproto/internal/session"
	"github.com/xelaj/mtproto/telegram"
	"github.com/xelaj/mtproto/zverif/ref/mtp1"
	"github.com/xelaj/mtproto/zverif/ref/rpcsrv"
	"github.com/xelaj/mtproto/zverif/ref/tlschema"
	"github.com/xelaj/mtproto/zverif/ref/tlw"
	"github.com/xelaj/mtproto/zverif/sess"
	"github.com/xelaj/mtproto/zverif/tlx"
	"github.com/xelaj/mtproto/zverif/vr"
)

type e2e struct {
	run    *vr.Run
	c      *checker
	g      *tlx.Gen
	net    *sess.Net
	srv    *rpcsrv.Server
	cl     *telegram.Client
	answer []byte // result object for the next request
	gotReq []byte
	salt   int64
	// packForm > 0: answers go out gzip-packed in form packForm-1 (rpcsrv.GzipForm)
	packForm int
}

func (x *e2e) connect() {
	x.net = sess.NewNet(nil)
	key := sess.TestKey()
	x.srv = rpcsrv.New(key, 9)
	x.salt = 1000 + x.salt
	x.srv.OnRequest = func(msgID int64, body []byte) []byte {
		x.gotReq = append([]byte{}, body...)
		if x.packForm > 0 {
			return rpcsrv.GzipForm(x.answer, x.packForm-1)
		}
		return x.answer
	}
	x.net.Servers[sess.Addr] = x.srv
	x.net.Install()
	store := &sess.MemStore{Cur: &session.Session{Key: key, Hash: mtp1.KeyID(key), Salt: 9, Hostname: sess.Addr}}
	m, err := mtproto.NewMTProto(mtproto.Config{SessionStorage: store, ServerHost: "unused:1"})
	if err != nil {
		vr.HarnessError("NewMTProto: %v", err)
	}
	m.Warnings = make(chan error, 1024)
	if err := m.CreateConnection(); err != nil {
		vr.HarnessError("CreateConnection: %v", err)
	}
	x.cl = &telegram.Client{MTProto: m}
}

// distinct builds the j-th distinguishable value of a type.
func (x *e2e) distinct(t reflect.Type, j int) (reflect.Value, bool) {
	switch t.Kind() {
	case reflect.Int32:
		return reflect.ValueOf(int32(1001 + j)).Convert(t), true
	case reflect.Int64:
		return reflect.ValueOf(int64(5000000001 + int64(j))).Convert(t), true
	case reflect.String:
		return reflect.ValueOf(fmt.Sprintf("arg-%d", j)).Convert(t), true
	case reflect.Float64:
		return reflect.ValueOf(float64(j) + 0.25).Convert(t), true
	case reflect.Bool:
		return reflect.ValueOf(true), true // bit present; false would be indistinguishable from absent
	case reflect.Slice:
		if t.Elem().Kind() == reflect.Uint8 {
			return reflect.ValueOf([]byte{byte(j + 1), 0xee}).Convert(t), true
		}
		n := j%2 + 1
		s := reflect.MakeSlice(t, n, n)
		for i := 0; i < n; i++ {
			v, ok := x.distinct(t.Elem(), j*3+i)
			if !ok {
				return reflect.Value{}, false
			}
			s.Index(i).Set(v)
		}
		return s, true
	}
	alts := x.g.Alts(t, 2, true)
	if len(alts) == 0 {
		return reflect.Value{}, false
	}
	return tlx.Clone(alts[j%len(alts)]), true
}

// answers builds (Go value, wire bytes) pairs for a function's declared result.
func (x *e2e) answers(d *tlschema.Def, all bool) (vals []reflect.Value, wires [][]byte, kind string) {
	add := func(v reflect.Value) {
		b, err := x.c.api.Encode(v)
		if err == nil {
			vals = append(vals, v)
			wires = append(wires, b)
		}
	}
	rt := d.Result
	switch rt.Name {
	case "Bool":
		vals = append(vals, reflect.ValueOf(true), reflect.ValueOf(false))
		wires = append(wires, (&tlw.W{}).Bool(true).B, (&tlw.W{}).Bool(false).B)
		return vals, wires, "Bool"
	case "Vector":
		el := rt.Elem
		switch el.Name {
		case "int":
			for _, v := range [][]int32{{7, -8}, {}} {
				vals = append(vals, reflect.ValueOf(v))
				wires = append(wires, (&tlw.W{}).VecI32(v).B)
			}
		case "long":
			for _, v := range [][]int64{{7, -8}, {}} {
				vals = append(vals, reflect.ValueOf(v))
				wires = append(wires, (&tlw.W{}).VecI64(v).B)
			}
		default:
			cons := x.c.api.ByResult[el.Name]
			var elems []reflect.Value
			for _, con := range cons {
				if e, ok := x.c.reg.ByCRC[con.ID]; ok && e.IsStruct() {
					if v, ok := x.g.Build(e.Type, 2, false); ok {
						elems = append(elems, v)
					}
				} else if ok && e.Enum {
					elems = append(elems, reflect.ValueOf(e.CRC).Convert(e.Type))
				}
				if len(elems) == 2 {
					break
				}
			}
			if len(elems) == 1 {
				elems = append(elems, elems[0])
			}
			for _, n := range []int{2, 0} {
				w := (&tlw.W{}).U32(tlw.Vector).U32(uint32(n))
				ok := true
				for i := 0; i < n; i++ {
					b, err := x.c.api.Encode(elems[i])
					if err != nil {
						ok = false
						break
					}
					w.Raw(b)
				}
				if ok && len(elems) >= n {
					vals = append(vals, reflect.ValueOf(elems[:n]))
					wires = append(wires, w.B)
				}
			}
		}
		return vals, wires, "Vector<" + el.Name + ">"
	}
	for _, con := range x.c.api.ByResult[rt.Name] {
		e, ok := x.c.reg.ByCRC[con.ID]
		if !ok {
			continue
		}
		if e.Enum {
			add(reflect.ValueOf(e.CRC).Convert(e.Type))
		} else if e.IsStruct() {
			if v, ok := x.g.Build(e.Type, 2, false); ok {
				add(v)
			}
		}
		if !all && len(vals) >= 1 {
			break
		}
	}
	return vals, wires, rt.Name
}

var methods = runMethods

func runMethods(run *vr.Run, c *checker) {
	x := &e2e{run: run, c: c, g: &tlx.Gen{R: c.reg}}
	x.connect()
	defer x.net.Uninstall()
	ct := reflect.TypeOf(x.cl)
	embedded := map[string]bool{}
	mt := reflect.TypeOf(x.cl.MTProto)
	for i := 0; i < mt.NumMethod(); i++ {
		embedded[mt.Method(i).Name] = true
	}
	hand := map[string]bool{"InitConnection": true, "InvokeWithLayer": true, "InvokeWithTakeout": true, "IsSessionRegistred": true, "AuthLogOut": false}
	called, calls := 0, 0
	for i := 0; i < ct.NumMethod(); i++ {
		m := ct.Method(i)
		if embedded[m.Name] || hand[m.Name] {
			continue
		}
		pe := x.paramsEntry(m.Name)
		if pe == nil {
			continue // not a generated schema method (hand-written helper)
		}
		d := c.api.ByID[pe.CRC]
		if d == nil || !d.Func {
			run.Violation("method|"+m.Name+"|params-not-a-function", m.Name+": its Params type is not a schema function", map[string]any{"ID": m.Name})
			continue
		}
		called++
		vals, wires, kind := x.answers(d, true)
		if len(vals) == 0 {
			run.Violation("method|"+m.Name+"|no-answer-constructible|"+kind, fmt.Sprintf("%s: no value of result type %s could be built from registered constructors", m.Name, kind), map[string]any{"ID": m.Name})
			continue
		}
		for ai := range vals {
			calls++
			x.call(m, pe, d, vals[ai], wires[ai], kind, ai, false)
		}
		calls++
		x.call(m, pe, d, vals[0], wires[0], kind, 0, true)
		// the answer gzip-packed, in one of the three legal stream forms (one piece, flushed pieces, two members)
		calls++
		x.packForm = 1 + called%3
		x.call(m, pe, d, vals[len(vals)-1], wires[len(vals)-1], kind+"|gzip-packed", len(vals)-1, false)
		x.packForm = 0
		x.overlap(m, pe, wires[0])
	}
	run.Set("methods_called", called)
	run.Set("method_calls", calls)
	run.Sample(map[string]any{"method": "AccountAcceptAuthorization", "args": "botID=1001, scope=\"arg-1\", publicKey=\"arg-2\", valueHashes=[..], credentials=..", "answer": "boolTrue"})
}

func (x *e2e) paramsEntry(method string) *tlx.Entry {
	for _, e := range x.c.reg.Entries {
		if e.IsStruct() && e.Type.Elem().Name() == method+"Params" && strings.HasSuffix(e.Type.Elem().PkgPath(), "/telegram") {
			return e
		}
	}
	return nil
}

func (x *e2e) call(m reflect.Method, pe *tlx.Entry, d *tlschema.Def, wantVal reflect.Value, wire []byte, kind string, ai int, reject bool) {
	id := fmt.Sprintf("method|%s|answer#%d", m.Name, ai)
	if x.packForm > 0 {
		id += fmt.Sprintf("|gzip-form%d", x.packForm-1)
	}
	if reject {
		// the server's salt changes just before this request arrives: the request is rejected with
		// bad_server_salt and the client sends it again by itself; the caller must notice nothing
		id += "|after-salt-rejection"
		kind += "|after-salt-rejection"
		if !x.quiesce() {
			x.run.Count("salt_rejection_calls_not_judged", 1)
			return
		}
		x.salt++
		x.srv.RotateBefore = map[int]int64{x.srv.EncFrames() + 1: x.salt}
	}
	rep := map[string]any{"ID": id}
	run := x.run
	args, expect, why, skip := x.buildArgs(m, pe, 0)
	if skip {
		run.Eval(id, false)
		return
	}
	if why != "" {
		run.Eval(id, true)
		run.Violation("method|"+m.Name+"|"+why, fmt.Sprintf("%s: %s", m.Name, why), rep)
		return
	}
	wantReq, err := x.c.api.Encode(expect)
	if err != nil {
		run.Eval(id, false)
		return
	}
	x.answer, x.gotReq = wire, nil
	type result struct {
		out []reflect.Value
		pan string
	}
	done := make(chan result, 1)
	go func() {
		var r result
		defer func() {
			if p := recover(); p != nil {
				r.pan = fmt.Sprint(p)
			}
			done <- r
		}()
		r.out = m.Func.Call(args)
	}()
	var res result
	returned := false
	deadline := time.Now().Add(90 * time.Second)
wait:
	for {
		select {
		case res = <-done:
			returned = true
			break wait
		case <-time.After(2 * time.Millisecond):
			// structural hang detection: the answer was delivered and consumed, the reader is idle again,
			// and (checked twice, 50ms apart) the call still has not returned
			if x.gotReq != nil && x.connIdle() {
				time.Sleep(50 * time.Millisecond)
				select {
				case res = <-done:
					returned = true
				default:
				}
				if returned || x.connIdle() {
					break wait
				}
			}
			if time.Now().After(deadline) {
				vr.HarnessError("method %s: neither returned nor reached an idle state in 90s", m.Name)
			}
		}
	}
	run.Eval(id, true)
	if !returned {
		run.Violation("method|"+m.Name+"|hangs|"+kind, fmt.Sprintf("%s: the answer (%s) was delivered but the call never returns", m.Name, kind), rep)
		x.connect() // the stuck caller leaks; continue on a fresh client
		return
	}
	if !bytes.Equal(x.gotReq, wantReq) {
		run.Violation("method|"+m.Name+"|request-bytes", fmt.Sprintf("%s: request on the wire differs from the schema serialisation of its arguments in declaration order (got %d bytes, want %d; constructor %08x)", m.Name, len(x.gotReq), len(wantReq), pe.CRC), rep)
	}
	if res.pan != "" {
		run.Violation("method|"+m.Name+"|panic|"+kind, fmt.Sprintf("%s panics on a well-formed %s answer: %s", m.Name, kind, res.pan), rep)
		return
	}
	if errv := res.out[len(res.out)-1]; !errv.IsNil() {
		run.Violation("method|"+m.Name+"|error|"+kind, fmt.Sprintf("%s returns an error for a well-formed %s answer: %v", m.Name, kind, errv.Interface()), rep)
		return
	}
	got := res.out[0]
	want := wantVal
	if want.Type() != reflect.TypeOf([]reflect.Value{}) {
		want = tlx.Normalize(wantVal)
	}
	if got.Kind() == reflect.Interface && !got.IsNil() {
		got = got.Elem()
	}
	if ok, path := tlx.Equal(convertible(want, got), got, ""); !ok {
		run.Violation("method|"+m.Name+"|result|"+kind, fmt.Sprintf("%s: returned value differs from the answer at %s (got %s, want %s)", m.Name, path, got.Type(), want.Type()), rep)
	}
}

// buildArgs builds pairwise distinguishable arguments for a generated method (variant shifts every value) and
// the parameters object the schema defines for them. why != "": the method's signature disagrees with the schema.
func (x *e2e) buildArgs(m reflect.Method, pe *tlx.Entry, variant int) (args []reflect.Value, expect reflect.Value, why string, skip bool) {
	ft := m.Type
	args = []reflect.Value{reflect.ValueOf(x.cl)}
	expect = reflect.New(pe.Type.Elem())
	fidx := tlx.Fields(pe.Type.Elem())
	nargs := ft.NumIn() - 1
	shift := 40 * variant
	if nargs == 1 && ft.In(1) == pe.Type {
		// single params struct
		v, ok := x.g.Build(pe.Type, 2, false)
		if !ok {
			return nil, expect, "", true
		}
		for j, fi := range fidx {
			if dv, ok := x.distinct(pe.Type.Elem().Field(fi).Type, j+shift); ok {
				v.Elem().Field(fi).Set(dv)
			}
		}
		return append(args, v), tlx.Clone(v), "", false
	}
	if nargs != len(fidx) {
		return nil, expect, fmt.Sprintf("arity: takes %d arguments, its function has %d parameters", nargs, len(fidx)), false
	}
	for j := 0; j < nargs; j++ {
		dv, ok := x.distinct(ft.In(j+1), j+shift)
		if !ok {
			return nil, expect, "", true
		}
		args = append(args, dv)
		if dv.Type() != pe.Type.Elem().Field(fidx[j]).Type {
			return nil, expect, fmt.Sprintf("arg-type|#%d: argument has type %s, schema parameter is held in %s", j, dv.Type(), pe.Type.Elem().Field(fidx[j]).Type), false
		}
		expect.Elem().Field(fidx[j]).Set(dv)
	}
	return args, expect, "", false
}

// overlap: two calls of one method with different arguments overlap on one client: A's request is rejected
// (salt rotation), B's too; B's rejection is delivered first, B is sent again, answered and returns; only then
// A learns of its rejection and is sent again. Each request the server executes must carry the arguments of
// its own call. Every wait is structural (queue lengths); if a step does not happen within its deadline the
// case is counted as not judged.
func (x *e2e) overlap(m reflect.Method, pe *tlx.Entry, wire []byte) {
	run := x.run
	id := "method|" + m.Name + "|overlapping-calls"
	aArgs, aExp, why, skip := x.buildArgs(m, pe, 0)
	bArgs, bExp, _, skip2 := x.buildArgs(m, pe, 1)
	if skip || skip2 || why != "" {
		return
	}
	aReq, e1 := x.c.api.Encode(aExp)
	bReq, e2 := x.c.api.Encode(bExp)
	if e1 != nil || e2 != nil || bytes.Equal(aReq, bReq) {
		return // no arguments to tell the calls apart
	}
	if !x.quiesce() {
		run.Count("overlapping_calls_not_judged", 1)
		return
	}
	var executed [][]byte
	x.srv.OnRequest = func(msgID int64, body []byte) []byte {
		executed = append(executed, append([]byte{}, body...))
		return wire
	}
	hold := true
	x.net.Lock()
	x.net.Auto = func(c *sess.Conn) {
		if !hold {
			c.DeliverAllDefault()
		}
	}
	x.salt++
	x.srv.RotateBefore = map[int]int64{x.srv.EncFrames() + 1: x.salt}
	x.net.Unlock()
	restore := func() {
		x.net.Lock()
		hold = false
		x.net.Auto = nil
		x.net.Unlock()
		x.srv.OnRequest = func(msgID int64, body []byte) []byte {
			x.gotReq = append([]byte{}, body...)
			return x.answer
		}
	}
	call := func(args []reflect.Value) chan bool {
		done := make(chan bool, 1)
		go func() {
			defer func() { done <- recover() == nil }()
			m.Func.Call(args)
		}()
		return done
	}
	waitFor := func(cond func() bool) bool {
		deadline := time.Now().Add(5 * time.Second)
		for time.Now().Before(deadline) {
			x.net.Lock()
			ok := cond()
			x.net.Unlock()
			if ok {
				return true
			}
			time.Sleep(200 * time.Microsecond)
		}
		return false
	}
	giveUp := func() {
		run.Count("overlapping_calls_not_judged", 1)
		restore()
		x.connect()
	}
	conn := func() *sess.Conn { return x.net.Conns[len(x.net.Conns)-1] }
	deliver := func(i int) { // queue item i, whatever else waits
		for _, a := range x.srv.Menu() {
			if len(a.Idx) == 1 && a.Idx[0] == i && !strings.HasPrefix(a.Label, "gzip") && !strings.HasPrefix(a.Label, "event") {
				conn().Do(a)
				x.net.Wake()
				return
			}
		}
	}
	x.srv.Opt.Reorder = true
	defer func() { x.srv.Opt.Reorder = false }()
	doneA := call(aArgs)
	if !waitFor(func() bool { return len(x.srv.Queue) == 1 }) { // A rejected, the rejection is held
		giveUp()
		return
	}
	doneB := call(bArgs)
	if !waitFor(func() bool { return len(x.srv.Queue) == 2 }) { // B rejected as well (it still used the old salt)
		giveUp()
		return
	}
	x.net.Lock()
	deliver(1) // B learns first
	x.net.Unlock()
	if !waitFor(func() bool { return len(executed) == 1 && len(x.srv.Queue) == 2 }) { // B sent again and executed
		giveUp()
		return
	}
	x.net.Lock()
	deliver(1) // B's answer
	x.net.Unlock()
	select {
	case <-doneB:
	case <-time.After(5 * time.Second):
		giveUp()
		return
	}
	x.net.Lock()
	hold = false
	conn().DeliverAllDefault() // now A learns of its rejection; everything flows freely from here
	x.net.Wake()
	x.net.Unlock()
	select {
	case <-doneA:
	case <-time.After(5 * time.Second):
		giveUp()
		return
	}
	restore()
	run.Eval(id, true)
	rep := map[string]any{"ID": id}
	if len(executed) != 2 || !bytes.Equal(executed[0], bReq) || !bytes.Equal(executed[1], aReq) {
		what := "the re-sent request of the first call does not carry that call's arguments"
		if len(executed) == 2 && bytes.Equal(executed[1], bReq) {
			what = "the re-sent request of the first call carries the arguments of the second call"
		}
		run.Violation("method|"+m.Name+"|overlapping-calls|wrong-arguments", fmt.Sprintf("%s: two overlapping calls with different arguments: %s (%d requests executed)", m.Name, what, len(executed)), rep)
	}
}

// convertible re-types a slice of concrete pointers into the declared slice type when needed.
func convertible(want, got reflect.Value) reflect.Value {
	if want.Type() == got.Type() {
		return want
	}
	if want.Kind() == reflect.Slice && got.Kind() == reflect.Slice {
		s := reflect.MakeSlice(got.Type(), want.Len(), want.Len())
		for i := 0; i < want.Len(); i++ {
			e := want.Index(i)
			if rv, ok := e.Interface().(reflect.Value); ok {
				e = tlx.Normalize(rv)
			}
			for e.Kind() == reflect.Interface {
				e = e.Elem()
			}
			if e.Type().AssignableTo(got.Type().Elem()) {
				s.Index(i).Set(e)
			} else {
				return want
			}
		}
		return s
	}
	return want
}

// quiesce waits until the reading routine is back in Read with nothing pending: it has then written the
// acknowledgement of the previous answer, so the next frame the server sees is the next request (the salt
// rotation of the following case is placed "before the next frame").
func (x *e2e) quiesce() bool {
	deadline := time.Now().Add(5 * time.Second)
	for time.Now().Before(deadline) {
		if x.connIdle() {
			return true
		}
		time.Sleep(100 * time.Microsecond)
	}
	return false
}

func (x *e2e) connIdle() bool {
	x.net.Lock()
	cs := x.net.Conns
	x.net.Unlock()
	if len(cs) == 0 {
		return false
	}
	return cs[len(cs)-1].Idle() && len(x.srv.Queue) == 0
}
