// C09 — each RPC call returns exactly the result addressed to its own request.
package main

import (
	"time"

	"github.com/xelaj/mtproto/zverif/ref/rpcsrv"
	"github.com/xelaj/mtproto/zverif/sched"
	"github.com/xelaj/mtproto/zverif/sess"
	"github.com/xelaj/mtproto/zverif/vr"
)

func scenarios() []*sess.Scenario {
	all := rpcsrv.Options{Reorder: true, Container: true, Gzip: true, IDAtGeneration: true}
	dup := all // the server may also send a result twice
	dup.Duplicate = true
	return []*sess.Scenario{
		{Name: "S1-2callers-obj", Salt: 77, Opt: dup, Callers: [][]sess.Call{{{Tag: 1, Kind: rpcsrv.KObj}}, {{Tag: 2, Kind: rpcsrv.KObj}}}},
		{Name: "S2-3callers-obj-bool-err", Salt: 77, Opt: all, Callers: [][]sess.Call{{{Tag: 1, Kind: rpcsrv.KObj}}, {{Tag: 2, Kind: rpcsrv.KBool}}, {{Tag: 3, Kind: rpcsrv.KErr}}}},
		{Name: "S3-2callers-2ops", Salt: 77, Opt: all, Callers: [][]sess.Call{{{Tag: 1, Kind: rpcsrv.KObj}, {Tag: 3, Kind: rpcsrv.KBool}}, {{Tag: 2, Kind: rpcsrv.KObj}, {Tag: 4, Kind: rpcsrv.KObj}}}},
		{Name: "S4-vector-hints", Salt: 77, Opt: dup, Callers: [][]sess.Call{{{Tag: 1, Kind: rpcsrv.KVecInt}}, {{Tag: 2, Kind: rpcsrv.KVecObj}}}},
		// a request that the server rejects for a stale salt is sent again under a new msg_id: its caller still
		// gets its own, typed, result
		{Name: "S6-vector-results-re-sent-after-salt-rejection", Salt: 77, Opt: all, RotateBefore: map[int]int64{1: 88}, Callers: [][]sess.Call{{{Tag: 1, Kind: rpcsrv.KVecInt}}, {{Tag: 2, Kind: rpcsrv.KVecObj}}}},
		// a big answer (48 KiB of Vector<int>), plain or gzip-packed: it spans several reads of the unpacker
		{Name: "S8-highly-redundant-vector-result-plain-or-gzip", Salt: 77, Opt: all, Callers: [][]sess.Call{{{Tag: 1, Kind: rpcsrv.KVecIntSame}}, {{Tag: 2, Kind: rpcsrv.KObj}}}},
		{Name: "S7-big-vector-result-plain-or-gzip", Salt: 77, Opt: all, Callers: [][]sess.Call{{{Tag: 1, Kind: rpcsrv.KVecIntBig}}, {{Tag: 2, Kind: rpcsrv.KObj}}}},
		// one frame - a request or an acknowledgement, whichever the explorer picks - cannot be written (the write
		// fails as a whole and the connection stays usable): the call whose request it was gets the error, every
		// other call still gets exactly its own result
		{Name: "W1-one-write-fails", Salt: 77, Opt: rpcsrv.Options{Reorder: true, IDAtGeneration: true}, WriteFaults: 1,
			Callers: [][]sess.Call{{{Tag: 1, Kind: rpcsrv.KObj}, {Tag: 2, Kind: rpcsrv.KBool}, {Tag: 3, Kind: rpcsrv.KObj}}, {{Tag: 4, Kind: rpcsrv.KObj}, {Tag: 5, Kind: rpcsrv.KObj}}}},
		// the keep-alive timer fires at a moment the explorer chooses: the pinging goroutine sends its ping between
		// the steps of the callers and of the reading routine, the server answers it with a pong
		{Name: "P1-keepalive-ping-among-callers", Salt: 77, Opt: rpcsrv.Options{Reorder: true, Container: true, IDAtGeneration: true}, Ticks: 1,
			Callers: [][]sess.Call{{{Tag: 1, Kind: rpcsrv.KObj}, {Tag: 3, Kind: rpcsrv.KBool}}, {{Tag: 2, Kind: rpcsrv.KVecInt}}}},
		{Name: "S5-sequential-all-kinds", Salt: 77, Opt: all, Callers: [][]sess.Call{{{Tag: 1, Kind: rpcsrv.KObj}, {Tag: 2, Kind: rpcsrv.KBool}, {Tag: 3, Kind: rpcsrv.KVecInt}, {Tag: 4, Kind: rpcsrv.KVecObj}, {Tag: 5, Kind: rpcsrv.KErr}}}},
	}
}

func main() {
	run := vr.New("C09", "model_checking")
	defer run.Recover()
	run.Rule("executions = complete schedules of the real client (callers, receive loop, acknowledgement one-shots) x server answer choices (order, containers of <=3 in any order, gzip), enumerated depth-first with delay bound D (non-default thread choices) and server-deviation bound E; an execution is non-trivial when at least one caller returned; distinct = distinct choice list")
	run.Assume("cooperative scheduler models sync.Mutex/RWMutex, unbuffered/buffered channels, closed ctx.Done channels; every Conn.Write is a scheduling point; the in-memory Conn mimics tcpConn (exact-count reads, EOF, context.Canceled)",
		"reference server R5 opens every frame with an independent MTProto 1.0 implementation; test requests are harness-local constructors registered with the decoder",
		"memory-model effects are outside a cooperative scheduler")
	D, E := 2, 1
	budget := 5 * time.Minute
	if run.Thorough() {
		D, E = 3, 1 // small scenarios get E+1 (see Bounds)
		budget = 90 * time.Minute
	}
	run.Set("delay_bound", D)
	run.Set("server_deviation_bound", E)
	run.Sample(map[string]any{"scenario": "S2-3callers-obj-bool-err", "choices": []int{0, 0, 0, 1, 0, 0, 2}, "meaning": "index of the chosen alternative at each scheduling point; 0 = default (keep running / lowest thread id / oldest queued answer as a plain message)"})
	(&sess.XSpec{Run: run, Scenarios: scenarios(), Budget: budget, FreeSet: run.ID,
		Bounds: func(sc *sess.Scenario) sched.Bounds {
			ops := 0
			for _, c := range sc.Callers {
				ops += len(c)
			}
			if ops <= 2 || len(sc.Callers) == 1 {
				// small scenarios get one more server deviation (two results re-ordered AND grouped / gzip-packed)
				return sched.Bounds{Preemptions: -1, Delays: D, EnvDev: E + 1}
			}
			return sched.Bounds{Preemptions: -1, Delays: D, EnvDev: E}
		},
		Judge:      judge,
		NonTrivial: sess.AnyReturned,
	}).Main()
}

func judge(run *vr.Run, sc *sess.Scenario, w *sess.World, choices []int) {
	if sess.JudgeAlive(run, sc, w, choices) {
		sess.JudgeCalls(run, sc, w, choices)
	}
}
