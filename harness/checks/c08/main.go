// C08 — transport framing delivers the same messages however the stream is split.
package main

import (
	"bytes"
	"context"
	"encoding/binary"
	"fmt"
	"io"
	"net"
	"strings"
	"sync"
	"time"

	"github.com/xelaj/mtproto/internal/mode"
	"github.com/xelaj/mtproto/internal/mtproto/messages"
	"github.com/xelaj/mtproto/internal/transport"
	"github.com/xelaj/mtproto/zverif/freepass"
	"github.com/xelaj/mtproto/zverif/vr"
)

// ---- R4: reference framer ------------------------------------------------------------------------

func announce(v mode.Variant) []byte {
	if v == mode.Abridged {
		return []byte{0xef}
	}
	return []byte{0xee, 0xee, 0xee, 0xee}
}

func frame(v mode.Variant, msg []byte) []byte {
	if v == mode.Intermediate {
		return append(binary.LittleEndian.AppendUint32(nil, uint32(len(msg))), msg...)
	}
	w := len(msg) / 4
	if w < 127 {
		return append([]byte{byte(w)}, msg...)
	}
	return append([]byte{0x7f, byte(w), byte(w >> 8), byte(w >> 16)}, msg...)
}

func payload(n, salt int) []byte {
	b := make([]byte, n)
	for i := range b {
		b[i] = byte(i*5 + salt*17 + 1)
	}
	return b
}

// segReader hands the stream out in the chunks the enumerator chose.
type segReader struct {
	data []byte
	cuts []int // chunk sizes; after they are used up the rest comes in one piece
	eofE error
}

func (s *segReader) Read(p []byte) (int, error) {
	if len(s.data) == 0 {
		if s.eofE != nil {
			return 0, s.eofE
		}
		return 0, io.EOF
	}
	n := len(s.data)
	if len(s.cuts) > 0 {
		n = s.cuts[0]
		s.cuts = s.cuts[1:]
	}
	if n > len(p) {
		// the caller asked for less than the chunk: give what fits, keep the rest of the chunk
		s.cuts = append([]int{n - len(p)}, s.cuts...)
		n = len(p)
	}
	if n > len(s.data) {
		n = len(s.data)
	}
	copy(p, s.data[:n])
	s.data = s.data[n:]
	return n, nil
}

func variantName(v mode.Variant) string {
	if v == mode.Abridged {
		return "abridged"
	}
	return "intermediate"
}

type ctx struct{ run *vr.Run }

// readAll reads messages from stream (after the announcement) cut as given, through the real tcpConn read
// path and the real mode; it returns the messages and the terminal error.
func readAll(v mode.Variant, stream []byte, cuts []int, max int) (msgs [][]byte, err error, panicked string) {
	c, cancel := context.WithCancel(context.Background())
	defer cancel()
	conn := segConn(c, &segReader{data: stream, cuts: cuts})
	p, pm, fr := vr.Try(func() {
		var m mode.Mode
		m, err = mode.Detect(conn)
		if err != nil {
			return
		}
		for i := 0; i < max; i++ {
			var b []byte
			b, err = m.ReadMsg()
			if err != nil {
				return
			}
			msgs = append(msgs, b)
		}
	})
	if p {
		panicked = pm + " in " + fr
	}
	return
}

func (c ctx) checkRead(id, class string, v mode.Variant, want [][]byte, stream []byte, cuts []int) {
	rep := map[string]any{"mode": variantName(v), "stream_hex": fmt.Sprintf("%x", stream[:min(len(stream), 64)]), "stream_len": len(stream), "cuts": cuts}
	msgs, err, pan := readAll(v, stream, cuts, len(want)+1)
	c.run.Eval(id, len(cuts) > 0)
	if pan != "" {
		c.run.Violation("read|panic|"+variantName(v)+"|"+class, id+": "+pan, rep)
		return
	}
	if len(msgs) != len(want) {
		c.run.Violation(fmt.Sprintf("read|message-count|%s|%s", variantName(v), class), fmt.Sprintf("%s: read %d messages (then %v), %d were written", id, len(msgs), err, len(want)), rep)
		return
	}
	for i := range want {
		if !bytes.Equal(msgs[i], want[i]) {
			c.run.Violation(fmt.Sprintf("read|message-differs|%s|%s", variantName(v), class), fmt.Sprintf("%s: message %d differs (got %d bytes, want %d)", id, i, len(msgs[i]), len(want[i])), rep)
			return
		}
	}
	if err != io.EOF {
		c.run.Violation(fmt.Sprintf("read|end-of-stream-not-eof|%s|%s", variantName(v), class), fmt.Sprintf("%s: after the last frame ReadMsg returned %v, want io.EOF", id, err), rep)
	}
}

func main() {
	run := vr.New("C08", "exploration")
	defer run.Recover()
	freepass.MaybeReplay(run)
	c := ctx{run}
	run.Rule("write side: every message length in {0,4,..,520} u {1016,1020,1024,65536,2^20} and every sequence of <=3 lengths over {0,4,504,508,512,1024}, both modes, against a reference framer; every sequence of <=3 write/read operations over lengths {4,508,1024,262144} on one mode object (both directions share it); read side through the real tcpConn read path (CancelableReader, io.ReadFull) over a reader whose chunking is enumerated: every composition of streams up to N bytes, every single cut, every pair of cuts within 8 bytes of a frame boundary, byte-at-a-time and all-at-once for longer ones; 4-byte error frames; end of stream at every byte; non-trivial = a read case with at least one cut")
	run.Assume("OS-level TCP segmentation cannot be owned: in the exhaustive enumeration of segmentations the reader seam below tcpConn's CancelableReader stands for the socket; the loopback pass (real socket through transport.NewTCP, paced writes, pauses) is judged on the messages only and a case that reaches its read timeout is counted, not judged")
	variants := []mode.Variant{mode.Abridged, mode.Intermediate}
	N := 14
	if run.Thorough() {
		N = 19
	}
	run.Set("tcpConn_read_path_driven_over_an_in_memory_reader", transport.VerifTCPConnOverReader)
	if !transport.VerifTCPConnOverReader {
		N = 9 // every case below is delivered over a loopback socket instead (paced writes)
	}
	// ---- write side
	var lens []int
	for n := 0; n <= 520; n += 4 {
		lens = append(lens, n)
	}
	lens = append(lens, 1016, 1020, 1024, 65536, 1<<20)
	for _, v := range variants {
		for _, n := range lens {
			c.write(v, []int{n})
		}
		small := []int{0, 4, 504, 508, 512, 1024}
		for _, a := range small {
			for _, b := range small {
				c.write(v, []int{a, b})
				for _, d := range small {
					c.write(v, []int{a, b, d})
				}
			}
		}
		// abridged refuses lengths that are not a multiple of 4
		if v == mode.Abridged {
			for _, n := range []int{1, 2, 3, 5, 511} {
				var buf bytes.Buffer
				m, _ := mode.New(v, &buf)
				err := m.WriteMsg(payload(n, 0))
				run.Eval(fmt.Sprintf("write abridged len=%d", n), true)
				if err == nil {
					run.Violation("write|abridged|unaligned-accepted", fmt.Sprintf("abridged WriteMsg accepts %d bytes", n), nil)
				}
			}
		}
	}
	for _, v := range variants {
		c.bidirectional(v)
		c.failedWrites(v)
	}
	// ---- read side: all compositions of short streams
	for _, v := range variants {
		for _, seq := range [][]int{{0}, {4}, {8}, {4, 4}, {0, 4}, {4, 0, 4}, {12}, {8, 4}} {
			var want [][]byte
			stream := announce(v)
			for i, n := range seq {
				m := payload(n, i)
				want = append(want, m)
				stream = append(stream, frame(v, m)...)
			}
			if len(stream) > N {
				continue
			}
			n := len(stream)
			for mask := 0; mask < 1<<(n-1); mask++ {
				var cuts []int
				last := 0
				for i := 1; i < n; i++ {
					if mask&(1<<(i-1)) != 0 {
						cuts = append(cuts, i-last)
						last = i
					}
				}
				cuts = append(cuts, n-last)
				c.checkRead(fmt.Sprintf("read %s seq=%v mask=%x", variantName(v), seq, mask), "all-compositions", v, want, stream, cuts)
			}
		}
		// longer streams: single cuts, pairs near boundaries, byte-at-a-time, all-at-once
		for _, seq := range [][]int{{504}, {508}, {512}, {1024}, {504, 4, 508}, {512, 0, 1024}, {65536}, {4, 1 << 20, 4}} {
			var want [][]byte
			stream := announce(v)
			var bounds []int
			for i, n := range seq {
				m := payload(n, i)
				want = append(want, m)
				bounds = append(bounds, len(stream))
				stream = append(stream, frame(v, m)...)
			}
			bounds = append(bounds, len(stream))
			name := fmt.Sprintf("read %s seq=%v", variantName(v), seq)
			c.checkRead(name+" all-at-once", "all-at-once", v, want, stream, []int{len(stream)})
			if len(stream) <= 70000 && (transport.VerifTCPConnOverReader || len(stream) <= 2000) {
				ones := make([]int, len(stream))
				for i := range ones {
					ones[i] = 1
				}
				c.checkRead(name+" byte-at-a-time", "byte-at-a-time", v, want, stream, ones)
			}
			near := map[int]bool{}
			for _, b := range bounds {
				for d := -8; d <= 8; d++ {
					if b+d > 0 && b+d < len(stream) {
						near[b+d] = true
					}
				}
			}
			step := 1
			if len(stream) > 5000 || !transport.VerifTCPConnOverReader {
				step = 0 // only cuts near boundaries for very long streams
			}
			for i := 1; i < len(stream); i++ {
				if step == 1 || near[i] {
					c.checkRead(fmt.Sprintf("%s cut=%d", name, i), "single-cut", v, want, stream, []int{i, len(stream) - i})
				}
			}
			var nl []int
			for i := range near {
				nl = append(nl, i)
			}
			for _, i := range nl {
				for _, j := range nl {
					if i < j && (transport.VerifTCPConnOverReader || j-i <= 2) {
						c.checkRead(fmt.Sprintf("%s cuts=%d,%d", name, i, j), "two-cuts-near-boundary", v, want, stream, []int{i, j - i, len(stream) - j})
					}
				}
			}
		}
		// end of stream inside a frame: an error, never a message
		for _, n := range []int{4, 8, 508, 512} {
			m := payload(n, 3)
			full := append(announce(v), frame(v, m)...)
			for cut := len(announce(v)); cut < len(full); cut++ {
				id := fmt.Sprintf("eof %s len=%d stream-ends-at=%d", variantName(v), n, cut)
				msgs, err, pan := readAll(v, full[:cut], nil, 2)
				run.Eval(id, true)
				rep := map[string]any{"mode": variantName(v), "len": n, "cut": cut}
				where := "inside-frame"
				if cut == len(announce(v)) {
					where = "at-boundary"
				}
				switch {
				case pan != "":
					run.Violation("eof|panic|"+variantName(v)+"|"+where, id+": "+pan, rep)
				case len(msgs) > 0:
					run.Violation("eof|message-from-truncated-frame|"+variantName(v), fmt.Sprintf("%s: a message of %d bytes was produced from a frame cut short", id, len(msgs[0])), rep)
				case where == "at-boundary" && err != io.EOF:
					run.Violation("eof|boundary-not-eof|"+variantName(v), fmt.Sprintf("%s: %v, want io.EOF", id, err), rep)
				case err == nil:
					run.Violation("eof|no-error|"+variantName(v), id, rep)
				}
			}
		}
	}
	// ---- mode detection
	for b := 0; b < 256; b++ {
		stream := []byte{byte(b), byte(b), byte(b), byte(b), 0, 0, 0, 0}
		cconn := segConn(context.Background(), &segReader{data: stream})
		var m mode.Mode
		var err error
		p, pm, _ := vr.Try(func() { m, err = mode.Detect(cconn) })
		run.Eval(fmt.Sprintf("detect %02x", b), true)
		switch {
		case p:
			run.Violation("detect|panic", fmt.Sprintf("Detect panics on first byte %02x: %s", b, pm), nil)
		case b == 0xef || b == 0xee:
			vv, _ := mode.GetVariant(m)
			if err != nil || (b == 0xef && vv != mode.Abridged) || (b == 0xee && vv != mode.Intermediate) {
				run.Violation(fmt.Sprintf("detect|announcement-%02x-not-recognised", b), fmt.Sprintf("Detect(%02x..): %v", b, err), nil)
			}
		case err == nil:
			run.Violation("detect|foreign-announcement-accepted", fmt.Sprintf("Detect accepts first byte %02x", b), nil)
		}
	}
	for _, bad := range [][]byte{{0xee, 0xee, 0xee, 0xef}, {0xee, 0, 0, 0}, {0xee, 0xee}} {
		cconn := segConn(context.Background(), &segReader{data: bad})
		var err error
		pp, pm, _ := vr.Try(func() { _, err = mode.Detect(cconn) })
		run.Eval(fmt.Sprintf("detect %x", bad), true)
		if pp {
			run.Violation("detect|panic", fmt.Sprintf("Detect panics on % x: %s", bad, pm), nil)
		} else if err == nil {
			run.Violation("detect|partial-intermediate-announcement-accepted", fmt.Sprintf("Detect accepts % x", bad), nil)
		}
	}
	// ---- transport level: error frames carry the signed code; messages survive any single cut
	for _, code := range []int32{-404, -429, -1, 0x7fffffff, -0x80000000, 404} {
		for _, v := range variants {
			body := binary.LittleEndian.AppendUint32(nil, uint32(code))
			stream := frame(v, body) // the transport's mode is created by New (announcement goes out, not in)
			for cut := 0; cut <= len(stream); cut++ {
				id := fmt.Sprintf("errframe %s code=%d cut=%d", variantName(v), code, cut)
				conn := segConn(context.Background(), &segReader{data: stream, cuts: []int{max(cut, 1), len(stream)}})
				var err error
				var msg messages.Common
				p, pm, fr := vr.Try(func() {
					t, terr := transport.VerifNewTransport(&inf{}, conn, v)
					if terr != nil {
						err = terr
						return
					}
					msg, err = t.ReadMsg()
				})
				run.Eval(id, true)
				rep := map[string]any{"mode": variantName(v), "code": code}
				ec, isCode := err.(transport.ErrCode)
				switch {
				case p:
					run.Violation("errframe|panic|"+vr.MsgClass(pm)+"|"+fr, id+": "+pm, rep)
				case msg != nil:
					run.Violation("errframe|surfaced-as-message", id, rep)
				case !isCode:
					run.Violation("errframe|not-an-error-code", fmt.Sprintf("%s: %v", id, err), rep)
				case int64(ec) != int64(code):
					sign := "negative"
					if code >= 0 {
						sign = "positive"
					}
					run.Violation("errframe|wrong-value|"+sign, fmt.Sprintf("%s: surfaced as code %d", id, int64(ec)), rep)
				}
			}
		}
	}
	c.loopback()
	run.Sample(map[string]any{"mode": "abridged", "messages": []int{4, 0, 4}, "cuts": []int{1, 1, 3, 2, 1, 4}})
	run.Sample(map[string]any{"mode": "intermediate", "messages": []int{508}, "cuts": []int{3, 513}})
	freepass.Run(run, run.ID, freepass.Rounds(run))
	run.Finish()
}

type inf struct{}

func (*inf) GetSessionID() int64  { return 1 }
func (*inf) GetSeqNo() int32      { return 0 }
func (*inf) GetServerSalt() int64 { return 1 }
func (*inf) GetAuthKey() []byte   { return make([]byte, 256) }

func (c ctx) write(v mode.Variant, seq []int) {
	id := fmt.Sprintf("write %s %v", variantName(v), seq)
	var buf bytes.Buffer
	want := announce(v)
	var err error
	p, pm, fr := vr.Try(func() {
		var m mode.Mode
		m, err = mode.New(v, &buf)
		if err != nil {
			return
		}
		for i, n := range seq {
			msg := payload(n, i)
			want = append(want, frame(v, msg)...)
			if err = m.WriteMsg(msg); err != nil {
				return
			}
		}
	})
	c.run.Eval(id, false)
	rep := map[string]any{"mode": variantName(v), "lengths": seq}
	cls := lenClass(seq)
	switch {
	case p:
		c.run.Violation("write|panic|"+variantName(v)+"|"+vr.MsgClass(pm)+"|"+fr, id+": "+pm, rep)
	case err != nil:
		c.run.Violation("write|error|"+variantName(v)+"|"+cls, id+": "+err.Error(), rep)
	case !bytes.Equal(buf.Bytes(), want):
		c.run.Violation("write|bytes-differ|"+variantName(v)+"|"+cls, fmt.Sprintf("%s: wrote %d bytes, the format defines %d", id, buf.Len(), len(want)), rep)
	}
}

// duplexConn: the inbound stream is prepared up front, the outbound one is collected.
type duplexConn struct {
	r *bytes.Reader
	w bytes.Buffer
}

func (d *duplexConn) Read(p []byte) (int, error)  { return d.r.Read(p) }
func (d *duplexConn) Write(p []byte) (int, error) { return d.w.Write(p) }

// both directions on ONE mode object, as a connection has it: every sequence of up to 3 operations over
// {write n, read n}; what is read must be what the peer framed, what is written must be the reference framing
func (c ctx) bidirectional(v mode.Variant) {
	type op struct {
		write bool
		n     int
	}
	var alphabet []op
	for _, n := range []int{4, 508, 262144} {
		alphabet = append(alphabet, op{true, n})
	}
	for _, n := range []int{4, 508, 1024, 262144} {
		alphabet = append(alphabet, op{false, n})
	}
	var run func(seq []op)
	run = func(seq []op) {
		if len(seq) > 0 {
			var inbound []byte
			for i, o := range seq {
				if !o.write {
					inbound = append(inbound, frame(v, payload(o.n, i))...)
				}
			}
			d := &duplexConn{r: bytes.NewReader(inbound)}
			want := announce(v)
			id := fmt.Sprintf("bidirectional %s %v", variantName(v), seq)
			bad := ""
			p, pm, fr := vr.Try(func() {
				m, err := mode.New(v, d)
				if err != nil {
					bad = "new: " + err.Error()
					return
				}
				for i, o := range seq {
					if o.write {
						msg := payload(o.n, i+100)
						want = append(want, frame(v, msg)...)
						if err := m.WriteMsg(msg); err != nil {
							bad = fmt.Sprintf("op %d: write: %v", i, err)
							return
						}
					} else {
						b, err := m.ReadMsg()
						if err != nil || !bytes.Equal(b, payload(o.n, i)) {
							bad = fmt.Sprintf("op %d: read of a %d-byte message gives %d bytes, err=%v", i, o.n, len(b), err)
							return
						}
					}
				}
			})
			c.run.Eval(id, true)
			rep := map[string]any{"mode": variantName(v), "ops": fmt.Sprint(seq)}
			switch {
			case p:
				c.run.Violation("bidirectional|panic|"+variantName(v)+"|"+vr.MsgClass(pm)+"|"+fr, id+": "+pm, rep)
			case bad != "":
				c.run.Violation("bidirectional|wrong|"+variantName(v), id+": "+bad, rep)
			case !bytes.Equal(d.w.Bytes(), want):
				c.run.Violation("bidirectional|written-bytes-differ|"+variantName(v), id+": the written stream differs from the reference framing", rep)
			}
		}
		if len(seq) == 3 {
			return
		}
		for _, o := range alphabet {
			run(append(append([]op{}, seq...), o))
		}
	}
	run(nil)
}

func lenClass(seq []int) string {
	var s []string
	for _, n := range seq {
		switch {
		case n == 0:
			s = append(s, "0")
		case n/4 < 126:
			s = append(s, "short")
		case n/4 <= 128:
			s = append(s, fmt.Sprintf("words=%d", n/4))
		default:
			s = append(s, "long")
		}
	}
	return strings.Join(s, ",")
}

// ---- delivery over a real loopback TCP connection (transport.NewTCP, the constructor the client uses) ----------

// segConn gives the mode a connection whose inbound stream arrives in the chunks of r: through the real tcpConn
// read path over an in-memory reader when tcpConn still has the shape the harness export knows, else through
// transport.NewTCP and a loopback socket into which a feeder writes chunk by chunk (paced; what the kernel
// coalesces is not owned, the oracle only looks at the messages).
func segConn(ctx context.Context, r *segReader) transport.Conn {
	if transport.VerifTCPConnOverReader {
		return transport.VerifNewTCPConnFromReader(ctx, r, io.Discard)
	}
	var chunks [][]byte
	data := r.data
	for _, n := range r.cuts {
		if n > len(data) {
			n = len(data)
		}
		if n > 0 {
			chunks = append(chunks, data[:n])
			data = data[n:]
		}
	}
	if len(data) > 0 {
		chunks = append(chunks, data)
	}
	conn, _ := loopConn(ctx, chunks, nil, 30*time.Second, nil)
	return conn
}

// loopConn dials a fresh loopback listener through transport.NewTCP; the peer writes the chunks (gap[i] before chunk
// i, 300us by default), then closes its side; what the client wrote is handed to sink when the connection ends.
func loopConn(ctx context.Context, chunks [][]byte, gaps []time.Duration, timeout time.Duration, sink func([]byte)) (transport.Conn, error) {
	ln, err := net.Listen("tcp", "127.0.0.1:0")
	if err != nil {
		vr.HarnessError("loopback listener: %v", err)
	}
	go func() {
		defer ln.Close()
		pc, err := ln.Accept()
		if err != nil {
			return
		}
		if tc, ok := pc.(*net.TCPConn); ok {
			tc.SetNoDelay(true)
		}
		var got []byte
		done := make(chan struct{})
		go func() {
			defer close(done)
			got, _ = io.ReadAll(pc)
		}()
		for i, ch := range chunks {
			g := 300 * time.Microsecond
			if i < len(gaps) && gaps[i] > 0 {
				g = gaps[i]
			}
			if i > 0 {
				time.Sleep(g)
			}
			if _, err := pc.Write(ch); err != nil {
				break
			}
		}
		if tc, ok := pc.(*net.TCPConn); ok {
			tc.CloseWrite()
		}
		if sink != nil {
			<-done
			sink(got)
		}
		pc.Close()
	}()
	return transport.NewTCP(transport.TCPConnConfig{Ctx: ctx, Host: ln.Addr().String(), Timeout: timeout})
}

func (c ctx) loopback() {
	type lcase struct {
		id     string
		class  string
		v      mode.Variant
		seq    []int
		cuts   []int // absolute positions in the stream
		gaps   map[int]time.Duration
		writes []int // messages the client writes meanwhile
	}
	var cases []lcase
	long := 8 * time.Second // longer than any internal polling interval can reasonably be, shorter than the read timeout below
	const timeout = 12 * time.Second
	for _, v := range []mode.Variant{mode.Abridged, mode.Intermediate} {
		hdr := len(frame(v, payload(512, 0))) - 512
		an := len(announce(v))
		for _, seq := range [][]int{{4}, {508}, {512, 0, 1024}, {65536}, {4, 1 << 20, 4}} {
			total := an
			var bounds []int
			for _, n := range seq {
				bounds = append(bounds, total)
				total += len(frame(v, make([]byte, n)))
			}
			name := fmt.Sprintf("loopback %s seq=%v", variantName(v), seq)
			cases = append(cases, lcase{id: name + " all-at-once", class: "all-at-once", v: v, seq: seq, writes: []int{4, 508, 1024}})
			if total <= 2000 {
				var ones []int
				for i := 1; i < total; i++ {
					ones = append(ones, i)
				}
				cases = append(cases, lcase{id: name + " byte-at-a-time", class: "byte-at-a-time", v: v, seq: seq, cuts: ones})
			}
			for _, b := range bounds {
				for d := -2; d <= hdr+2; d++ {
					if b+d > 0 && b+d < total {
						cases = append(cases, lcase{id: fmt.Sprintf("%s cut=%d", name, b+d), class: "single-cut", v: v, seq: seq, cuts: []int{b + d}})
					}
				}
			}
			cases = append(cases, lcase{id: name + " pieces-of-256", class: "pieces", v: v, seq: seq, cuts: func() []int {
				var cs []int
				for i := 256; i < total && len(cs) < 600; i += 256 {
					cs = append(cs, i)
				}
				return cs
			}()})
		}
		// a pause inside a frame: in the header, right behind it, in the middle of the payload, at a frame boundary
		for _, at := range []struct {
			name string
			pos  int
		}{{"inside-header", an + hdr/2}, {"behind-header", an + hdr}, {"inside-payload", an + hdr + 300}, {"frame-boundary", an + hdr + 512}, {"inside-second-payload", an + hdr + 512 + hdr + 100}} {
			if at.pos == an {
				at.pos = an + 1
			}
			cases = append(cases, lcase{id: fmt.Sprintf("loopback %s seq=[512 508 4] pause-of-%v %s", variantName(v), long, at.name), class: "long-pause|" + at.name, v: v, seq: []int{512, 508, 4},
				cuts: []int{at.pos}, gaps: map[int]time.Duration{1: long}})
		}
	}
	var mu sync.Mutex
	var wg sync.WaitGroup
	sem := make(chan struct{}, 64)
	notJudged := 0
	for _, lc := range cases {
		lc := lc
		wg.Add(1)
		sem <- struct{}{}
		go func() {
			defer wg.Done()
			defer func() { <-sem }()
			v := lc.v
			stream := announce(v)
			var want [][]byte
			for i, n := range lc.seq {
				m := payload(n, i)
				want = append(want, m)
				stream = append(stream, frame(v, m)...)
			}
			var chunks [][]byte
			var gaps []time.Duration
			last := 0
			for _, cpos := range append(append([]int{}, lc.cuts...), len(stream)) {
				if cpos <= last || cpos > len(stream) {
					continue
				}
				chunks = append(chunks, stream[last:cpos])
				gaps = append(gaps, lc.gaps[len(chunks)-1])
				last = cpos
			}
			var wrote []byte
			sunk := make(chan struct{})
			cx, cancel := context.WithCancel(context.Background())
			defer cancel()
			conn, err := loopConn(cx, chunks, gaps, timeout, func(b []byte) { wrote = b; close(sunk) })
			rep := map[string]any{"mode": variantName(v), "messages": lc.seq, "cuts": lc.cuts[:min(len(lc.cuts), 16)], "over": "loopback TCP"}
			if err != nil {
				vr.HarnessError("loopback dial: %v", err)
			}
			var msgs [][]byte
			var rerr error
			wantW := []byte{}
			start := time.Now()
			p, pm, fr := vr.Try(func() {
				var m mode.Mode
				m, rerr = mode.Detect(conn)
				if rerr != nil {
					return
				}
				for i, n := range lc.writes {
					msg := payload(n, 50+i)
					wantW = append(wantW, frame(v, msg)...)
					if werr := m.WriteMsg(msg); werr != nil {
						rerr = werr
						return
					}
				}
				for i := 0; i < len(want)+1; i++ {
					var b []byte
					b, rerr = m.ReadMsg()
					if rerr != nil {
						return
					}
					msgs = append(msgs, b)
				}
			})
			conn.Close()
			<-sunk
			mu.Lock()
			defer mu.Unlock()
			c.run.Eval(lc.id, true)
			if rerr != nil && rerr != io.EOF && (strings.Contains(rerr.Error(), "timeout") || strings.Contains(rerr.Error(), "reconnect")) && time.Since(start) >= timeout {
				notJudged++ // the machine stalled for longer than the read timeout: nothing to judge
				return
			}
			switch {
			case p:
				c.run.Violation("loopback|panic|"+variantName(v)+"|"+lc.class+"|"+vr.MsgClass(pm)+"|"+fr, lc.id+": "+pm, rep)
				return
			case len(msgs) != len(want):
				c.run.Violation("loopback|message-count|"+variantName(v)+"|"+lc.class, fmt.Sprintf("%s: read %d messages (then %v), %d were sent", lc.id, len(msgs), rerr, len(want)), rep)
				return
			}
			for i := range want {
				if !bytes.Equal(msgs[i], want[i]) {
					c.run.Violation("loopback|message-differs|"+variantName(v)+"|"+lc.class, fmt.Sprintf("%s: message %d differs (got %d bytes, want %d)", lc.id, i, len(msgs[i]), len(want[i])), rep)
					return
				}
			}
			if rerr != io.EOF {
				c.run.Violation("loopback|end-of-stream-not-eof|"+variantName(v)+"|"+lc.class, fmt.Sprintf("%s: after the last frame ReadMsg returned %v, want io.EOF", lc.id, rerr), rep)
			}
			if len(lc.writes) > 0 && !bytes.Equal(wrote, wantW) {
				c.run.Violation("loopback|written-bytes-differ|"+variantName(v), fmt.Sprintf("%s: the peer received %d bytes, the format defines %d", lc.id, len(wrote), len(wantW)), rep)
			}
		}()
	}
	wg.Wait()
	c.run.Set("loopback_tcp_cases", len(cases))
	c.run.Set("loopback_tcp_cases_not_judged_read_timeout_reached", notJudged)
	c.run.Set("loopback_tcp_pause_inside_a_frame", long.String())
}

// failConn: a connection on which chosen writes fail as a whole (nothing reaches the wire).
type failConn struct {
	w     bytes.Buffer
	fail  map[int]bool
	count int
}

func (f *failConn) Read(p []byte) (int, error) { return 0, io.EOF }
func (f *failConn) Write(p []byte) (int, error) {
	f.count++
	if f.fail[f.count] {
		return 0, fmt.Errorf("write: broken pipe (injected)")
	}
	return f.w.Write(p)
}

// failedWrites: every history of <=3 WriteMsg calls over lengths {4,508,1024} in which every subset of the writes
// of the connection fails as a whole; afterwards a second mode object over a fresh connection writes one message.
// What reaches each wire must be the announcement and the frames of exactly the messages whose writes succeeded.
func (c ctx) failedWrites(v mode.Variant) {
	lens := []int{4, 508, 1024}
	var seqs [][]int
	for _, a := range lens {
		seqs = append(seqs, []int{a})
		for _, b := range lens {
			seqs = append(seqs, []int{a, b})
			for _, d := range lens {
				seqs = append(seqs, []int{a, b, d})
			}
		}
	}
	for _, seq := range seqs {
		// probe how many conn.Write calls a WriteMsg makes (1 or 2) on a healthy connection, then fail each subset
		for mask := 1; mask < 1<<(2*len(seq)+1); mask++ {
			fc := &failConn{fail: map[int]bool{}}
			for i := 0; i < 2*len(seq)+1; i++ {
				if mask&(1<<i) != 0 {
					fc.fail[i+1] = true
				}
			}
			id := fmt.Sprintf("failed-writes %s %v fail-mask=%b", variantName(v), seq, mask)
			rep := map[string]any{"mode": variantName(v), "lengths": seq, "failing_write_calls": fmt.Sprintf("%b", mask)}
			var other bytes.Buffer
			bad := ""
			anyFailed := false
			p, pm, fr := vr.Try(func() {
				m, err := mode.New(v, fc)
				if err != nil {
					anyFailed = true // the announcement could not be written: nothing more is sent on that connection
				}
				for i, n := range seq {
					if m == nil {
						break
					}
					before := fc.w.Len()
					err := m.WriteMsg(payload(n, i))
					if err != nil {
						anyFailed = true
						continue
					}
					if got, want := fc.w.Bytes()[before:], frame(v, payload(n, i)); !bytes.Equal(got, want) {
						bad = fmt.Sprintf("message %d (%d bytes) was reported written, but %d bytes went out where the format defines %d", i, n, len(got), len(want))
						return
					}
				}
				m2, err := mode.New(v, &other)
				if err != nil {
					bad = "second connection: " + err.Error()
					return
				}
				if err := m2.WriteMsg(payload(508, 9)); err != nil {
					bad = "second connection: " + err.Error()
				}
			})
			if !anyFailed && !p && bad == "" {
				continue // the mask named write calls that never happened
			}
			c.run.Eval(id, true)
			switch {
			case p:
				c.run.Violation("failed-writes|panic|"+variantName(v)+"|"+vr.MsgClass(pm)+"|"+fr, id+": "+pm, rep)
			case bad != "":
				c.run.Violation("failed-writes|wrong-bytes-after-a-failed-write|"+variantName(v), id+": "+bad, rep)
			case !bytes.Equal(other.Bytes(), append(announce(v), frame(v, payload(508, 9))...)):
				c.run.Violation("failed-writes|another-connection-disturbed|"+variantName(v), id+": a fresh connection of the process wrote bytes that differ from the reference framing after writes failed on another one", rep)
			}
		}
	}
}
