// C14 — schema parser and code generator translate any schema faithfully, reproducibly.
// Schemas are enumerated as a base schema plus every set of <=k features from a menu; each is parsed by
// the repository's parser (compared with the independent parser R1), generated under every explored map
// iteration order (outputs must be byte-identical), compiled, and reflected against the schema.
package main

import (
	"bytes"
	"encoding/json"
	"fmt"
	"os"
	"os/exec"
	"path/filepath"
	"sort"
	"strings"
	"sync"

	"github.com/xelaj/mtproto/internal/cmd/tlgen/tlparser"
	"github.com/xelaj/mtproto/zverif/enum"
	"github.com/xelaj/mtproto/zverif/ref/tlschema"
	"github.com/xelaj/mtproto/zverif/vr"
)

var excluded = map[string]bool{"true": true, "boolFalse": true, "boolTrue": true, "vector": true, "invokeAfterMsg": true, "invokeAfterMsgs": true,
	"initConnection": true, "invokeWithLayer": true, "invokeWithoutUpdates": true, "invokeWithMessagesRange": true, "invokeWithTakeout": true}

type env struct {
	run     *vr.Run
	repo    string
	scratch string
	tlgen   string
	overlay map[string]string
	goEnv   []string
	mu      sync.Mutex
	prior   map[string][]byte // output of the shipped api schema: what an output directory holds before a regeneration
}

func main() {
	run := vr.New("C14", "exploration")
	defer run.Recover()
	e := &env{run: run, repo: os.Getenv("VERIF_REPO_DIR")}
	if e.repo == "" {
		e.repo = "/repo"
	}
	var err error
	e.scratch, err = os.MkdirTemp("", "verif-c14-")
	if err != nil {
		vr.HarnessError("scratch: %v", err)
	}
	defer os.RemoveAll(e.scratch)
	run.Rule("schemas = a base schema (one enum type, one single-constructor type, one two-constructor type, two functions) plus every set of <=k features from a menu of ~75 (name clashes, every primitive as parameter and in a vector, vectors of struct/interface/enum, flags on bits {0,1,15,30,31} x parameter kinds, shared bits, flags word not first, namespaces, every annotation kind, plain comments, blank lines, CRLF, 12 result kinds, 0/5/6 parameters, colliding parameter names), plus the schema shipped as the generator's input; for each: parser == independent parser R1, generator exit status, output identical under 6 map-iteration orders and 2 fresh processes, output compiles, reflected package == schema; the other files under schemes/ are parsed for totality; non-trivial = distinct schema that reached the generator")
	run.Assume("map iteration order inside the generator is owned through a rewrite of its range statements over the maps declared in package gen (struct fields and make(map...) locals); 2 extra fresh-process runs guard maps the rewrite does not know",
		"the generated package is compiled as a virtual package of the repository module together with a stub Client (MakeRequest, MakeRequestWithHintToDecoder)")
	e.setup()
	if run.ReplayPath != "" {
		var c struct{ Features []string }
		run.LoadReplay(&c)
		fs := features()
		for i := range fs {
			fs[i].idx = i
		}
		var pick []feature
		for _, n := range c.Features {
			for _, f := range fs {
				if f.name == n {
					pick = append(pick, f)
				}
			}
		}
		e.one(pick, true)
		finish(e)
	}
	k := 1
	if run.Thorough() {
		k = 2
	}
	fs := features()
	for i := range fs {
		fs[i].idx = i
	}
	var jobs [][]feature
	sizes := make([]int, len(fs))
	for i := range sizes {
		sizes[i] = 2
	}
	enum.All(sizes, k, func(ix []int) {
		var pick []feature
		for i, v := range ix {
			if v == 1 {
				pick = append(pick, fs[i])
			}
		}
		jobs = append(jobs, pick)
	})
	sem := make(chan struct{}, 16)
	var wg sync.WaitGroup
	for _, j := range jobs {
		j := j
		wg.Add(1)
		sem <- struct{}{}
		go func() {
			defer wg.Done()
			defer func() { <-sem }()
			e.one(j, false)
		}()
	}
	wg.Wait()
	run.Set("feature_menu", len(fs))
	run.Set("feature_deviation_bound_k", k)
	run.Set("schemas", len(jobs))
	e.shipped()
	finish(e)
}

func finish(e *env) {
	os.RemoveAll(e.scratch)
	e.run.Finish()
}

func (e *env) sh(dir string, extraEnv []string, name string, args ...string) (string, error) {
	cmd := exec.Command(name, args...)
	cmd.Dir = dir
	cmd.Env = append(append([]string{}, e.goEnv...), extraEnv...)
	var out bytes.Buffer
	cmd.Stdout, cmd.Stderr = &out, &out
	err := cmd.Run()
	return out.String(), err
}

func (e *env) setup() {
	e.goEnv = append(os.Environ(), "GOFLAGS=-mod=mod", "GOPROXY=off", "GOSUMDB=off", "GOTOOLCHAIN=local")
	ovPath := filepath.Join(os.Getenv("VERIF_BUILD"), "ov", "overlay.json")
	b, err := os.ReadFile(ovPath)
	if err != nil {
		vr.HarnessError("overlay: %v", err)
	}
	var ov struct{ Replace map[string]string }
	if err := json.Unmarshal(b, &ov); err != nil {
		vr.HarnessError("overlay: %v", err)
	}
	e.overlay = ov.Replace
	e.tlgen = filepath.Join(e.scratch, "tlgen")
	if out, err := e.sh(filepath.Join(e.repo, "internal/cmd/tlgen"), nil, "go", "build", "-overlay", ovPath, "-o", e.tlgen, "."); err != nil {
		vr.HarnessError("building tlgen from the working tree: %v\n%s", err, out)
	}
	pd := filepath.Join(e.scratch, "prior")
	os.MkdirAll(pd, 0o755)
	if _, err := e.sh(e.scratch, []string{"VERIF_MAP_PERM=0"}, e.tlgen, filepath.Join(e.repo, "schemes", "api_latest.tl"), pd); err == nil {
		e.prior = readDir(pd)
	}
	os.RemoveAll(pd)
}

func names(fs []feature) []string {
	n := []string{}
	for _, f := range fs {
		n = append(n, f.name)
	}
	return n
}

var counter int

// one handles a single schema (base + features).
func (e *env) one(fs []feature, verbose bool) {
	d := base()
	crlf, noEOL := false, false
	for _, f := range fs {
		d.applyUnique(f, f.idx)
		crlf = crlf || f.crlf
		noEOL = noEOL || f.noEOL
	}
	text := d.text(crlf)
	if noEOL {
		text = strings.TrimRight(text, "\r\n")
	}
	fset := strings.Join(names(fs), "+")
	if fset == "" {
		fset = "base"
	}
	rep := map[string]any{"Features": names(fs), "schema": text}
	viol := func(stage, what string) {
		e.mu.Lock()
		e.run.Violation(fset+"|"+stage, fmt.Sprintf("schema [%s]: %s", fset, what), rep)
		e.mu.Unlock()
	}
	reached := false
	defer func() {
		e.mu.Lock()
		e.run.Eval("schema "+fset, reached)
		e.mu.Unlock()
	}()
	// ---- parser vs R1
	ref, err := tlschema.Parse(text)
	if err != nil {
		vr.HarnessError("the reference parser rejects a schema of the harness: %v\n%s", err, text)
	}
	if !e.compareParser(text, ref, viol) {
		return
	}
	// ---- generator under every explored map order
	e.mu.Lock()
	counter++
	id := counter
	e.mu.Unlock()
	dir := filepath.Join(e.scratch, fmt.Sprintf("s%d", id))
	os.MkdirAll(dir, 0o755)
	defer os.RemoveAll(dir)
	schemaFile := filepath.Join(dir, "schema.tl")
	os.WriteFile(schemaFile, []byte(text), 0o644)
	var first map[string][]byte
	for perm := 0; perm < 8; perm++ {
		out := filepath.Join(dir, fmt.Sprintf("out%d", perm))
		os.MkdirAll(out, 0o755)
		p := perm
		if perm >= 6 {
			p = 0 // two more fresh processes under the default order
		}
		o, err := e.sh(dir, []string{fmt.Sprintf("VERIF_MAP_PERM=%d", p)}, e.tlgen, schemaFile, out)
		if err != nil {
			viol("generate|"+vr.MsgClass(firstLine(o)), fmt.Sprintf("tlgen fails: %v: %s", err, firstLine(o)))
			return
		}
		files := map[string][]byte{}
		ents, _ := os.ReadDir(out)
		for _, en := range ents {
			b, _ := os.ReadFile(filepath.Join(out, en.Name()))
			files[en.Name()] = b
		}
		if first == nil {
			first = files
			continue
		}
		for n, b := range first {
			if !bytes.Equal(b, files[n]) {
				viol("nondeterministic|"+n, fmt.Sprintf("%s differs between map order #0 and #%d", n, perm))
				return
			}
		}
	}
	reached = true
	// ---- generated again over the output of an earlier, bigger schema (the shipped one)
	if e.prior != nil {
		if !e.regenerate(filepath.Join(dir, "regen"), schemaFile, e.prior, first, "generated into a directory holding the output of the shipped schema", viol) {
			return
		}
	}
	// ---- compile + reflect
	dump, out, err := e.compileAndProbe(dir, id, first)
	if err != nil {
		viol("compile|"+compileClass(out), "the generated package does not compile: "+firstLines(out, 3))
		return
	}
	e.compareDump(ref, dump, viol)
	if verbose {
		fmt.Println(text)
	}
}

func firstLine(s string) string { return firstLines(s, 1) }
func firstLines(s string, n int) string {
	l := strings.Split(strings.TrimSpace(s), "\n")
	var keep []string
	for _, x := range l {
		if strings.HasPrefix(x, "#") {
			continue
		}
		keep = append(keep, strings.TrimSpace(x))
		if len(keep) == n {
			break
		}
	}
	return strings.Join(keep, " / ")
}

// compileClass: the first compiler message without file positions and identifiers in quotes.
func compileClass(out string) string {
	l := firstLine(out)
	if i := strings.Index(l, ".go:"); i >= 0 {
		if j := strings.Index(l[i:], ": "); j >= 0 {
			l = l[i+j+2:]
		}
	}
	return vr.MsgClass(l)
}

func (e *env) compareParser(text string, ref *tlschema.Schema, viol func(stage, what string)) bool {
	var got *tlparser.Schema
	var err error
	p, pm, fr := vr.Try(func() { got, err = tlparser.ParseSchema(text) })
	if p {
		viol("parse|panic|"+vr.MsgClass(pm)+"|"+fr, "ParseSchema panics: "+pm)
		return false
	}
	if err != nil {
		viol("parse|error|"+vr.MsgClass(err.Error()), "ParseSchema rejects the schema: "+err.Error())
		return false
	}
	var wantObjs, wantFns []*tlschema.Def
	for _, d := range ref.Defs {
		if excluded[d.Name] || !d.HasID {
			continue
		}
		if d.Func {
			wantFns = append(wantFns, d)
		} else {
			wantObjs = append(wantObjs, d)
		}
	}
	if len(got.Objects) != len(wantObjs) || len(got.Methods) != len(wantFns) {
		viol("parse|count", fmt.Sprintf("parser found %d constructors and %d functions, the schema declares %d and %d", len(got.Objects), len(got.Methods), len(wantObjs), len(wantFns)))
		return false
	}
	cmpParams := func(name string, ps []tlparser.Parameter, d *tlschema.Def) bool {
		if len(ps) != len(d.Params) {
			viol("parse|param-count", fmt.Sprintf("%s: %d parameters parsed, %d declared", name, len(ps), len(d.Params)))
			return false
		}
		for i, rp := range d.Params {
			g := ps[i]
			wantType, wantVec := rp.Type.Raw, false
			if rp.Flags {
				wantType = "bitflags"
			}
			if rp.Type.Elem != nil {
				wantType, wantVec = rp.Type.Elem.Raw, true
			}
			wantBit := 0
			if rp.CondBit >= 0 {
				wantBit = rp.CondBit
			}
			if g.Name != rp.Name || g.Type != wantType || g.IsVector != wantVec || g.IsOptional != (rp.CondBit >= 0) || g.BitToTrigger != wantBit {
				viol("parse|param|"+paramClass(rp), fmt.Sprintf("%s: parameter %d parsed as %+v, declared %q", name, i, g, rp.Raw))
				return false
			}
		}
		return true
	}
	for i, d := range wantObjs {
		g := got.Objects[i]
		if g.Name != d.Name || g.CRC != d.ID || g.Interface != d.Result.Raw {
			viol("parse|constructor-header", fmt.Sprintf("constructor %d parsed as (%s, %08x, %s), declared (%s, %08x, %s)", i, g.Name, g.CRC, g.Interface, d.Name, d.ID, d.Result.Raw))
			return false
		}
		if !cmpParams(d.Name, g.Parameters, d) {
			return false
		}
	}
	for i, d := range wantFns {
		g := got.Methods[i]
		wantType, wantList := d.Result.Raw, false
		if d.Result.Elem != nil {
			wantType, wantList = d.Result.Elem.Raw, true
		}
		if g.Name != d.Name || g.CRC != d.ID || g.Response.Type != wantType || g.Response.IsList != wantList {
			viol("parse|function-header", fmt.Sprintf("function %d parsed as (%s, %08x, %s, list=%v), declared %q", i, g.Name, g.CRC, g.Response.Type, g.Response.IsList, d.Line))
			return false
		}
		if !cmpParams(d.Name, g.Parameters, d) {
			return false
		}
	}
	return true
}

func paramClass(p tlschema.Param) string {
	c := "plain"
	switch {
	case p.Flags:
		c = "flags-word"
	case p.CondBit >= 0 && p.Type.Elem != nil:
		c = "conditional-vector"
	case p.CondBit >= 0:
		c = "conditional"
	case p.Type.Elem != nil:
		c = "vector"
	}
	return c
}

type dField struct{ Name, Type, Kind, Tag string }
type dType struct {
	CRC       uint32
	Type      string
	Enum      bool
	Fields    []dField
	FlagIndex int
}
type dNamed struct {
	Kind    string
	Members []uint32
}
type dMethod struct {
	Name string
	In   []string
	Out  []string
}
type dumpT struct {
	Types   []dType
	Named   map[string]dNamed
	Methods []dMethod
}

func (e *env) compileAndProbe(dir string, id int, files map[string][]byte) (*dumpT, string, error) {
	pkgDir := filepath.Join(e.repo, "zverifgen", fmt.Sprintf("s%d", id))
	// the probe is built in the repository module itself: only the read-only registry export is layered on
	// (the rewritten sources import harness shims that are not visible from there)
	ov := map[string]string{}
	for k, v := range e.overlay {
		if strings.HasSuffix(k, "internal/encoding/tl/zz_export_verif.go") {
			ov[k] = v
		}
	}
	src := filepath.Join(dir, "pkg")
	os.MkdirAll(filepath.Join(src, "probe"), 0o755)
	write := func(rel string, b []byte) {
		p := filepath.Join(src, rel)
		os.WriteFile(p, b, 0o644)
		ov[filepath.Join(pkgDir, rel)] = p
	}
	for n, b := range files {
		write(n, b)
	}
	write("client_stub.go", []byte(stubClient))
	imp := fmt.Sprintf("github.com/xelaj/mtproto/zverifgen/s%d", id)
	write("probe/main.go", []byte(strings.Replace(probeMain, "IMPORTPATH", imp, 1)))
	ovb, _ := json.Marshal(map[string]any{"Replace": ov})
	ovFile := filepath.Join(dir, "overlay.json")
	os.WriteFile(ovFile, ovb, 0o644)
	bin := filepath.Join(dir, "probe.bin")
	out, err := e.sh(e.repo, nil, "go", "build", "-overlay", ovFile, "-o", bin, imp+"/probe")
	if err != nil {
		return nil, out, err
	}
	o, err := e.sh(dir, nil, bin)
	if err != nil {
		return nil, o, fmt.Errorf("probe: %v", err)
	}
	var d dumpT
	if err := json.Unmarshal([]byte(o), &d); err != nil {
		return nil, o, err
	}
	return &d, "", nil
}

// compareDump checks the reflected package against the schema (the C13 oracle, on the probe's dump).
func (e *env) compareDump(ref *tlschema.Schema, d *dumpT, viol func(stage, what string)) {
	byCRC := map[uint32]*dType{}
	for i := range d.Types {
		t := &d.Types[i]
		if strings.Contains(t.Type, "objects.") {
			continue
		}
		byCRC[t.CRC] = t
	}
	byResult := map[string][]*tlschema.Def{}
	var defs []*tlschema.Def
	for _, df := range ref.Defs {
		if excluded[df.Name] || !df.HasID {
			continue
		}
		defs = append(defs, df)
		if !df.Func {
			byResult[df.Result.Name] = append(byResult[df.Result.Name], df)
		}
	}
	var typeOK func(t tlschema.Type, gt string) string
	typeOK = func(t tlschema.Type, gt string) string {
		want := map[string]string{"int": "int32", "long": "int64", "double": "float64", "string": "string", "bytes": "[]uint8", "Bool": "bool", "true": "bool"}
		if w, ok := want[t.Name]; ok {
			if gt != w {
				return "want " + w
			}
			return ""
		}
		if t.Name == "Vector" || t.Name == "vector" {
			if !strings.HasPrefix(gt, "[]") {
				return "want a slice"
			}
			return typeOK(*t.Elem, gt[2:])
		}
		cons := byResult[t.Name]
		if len(cons) == 0 {
			return "type has no constructors"
		}
		n, ok := d.Named[gt]
		if !ok {
			return "Go type " + gt + " is not a named generated type"
		}
		ids := map[uint32]bool{}
		allEmpty := true
		for _, c := range cons {
			ids[c.ID] = true
			if len(c.Params) > 0 {
				allEmpty = false
			}
		}
		got := map[uint32]bool{}
		for _, m := range n.Members {
			got[m] = true
		}
		same := len(ids) == len(got)
		for id := range ids {
			same = same && got[id]
		}
		switch n.Kind {
		case "interface", "ptr":
			if !same {
				return fmt.Sprintf("%s %s stands for constructors %x, the type has %x", n.Kind, gt, keys(got), keys(ids))
			}
		case "enum":
			if !same || !allEmpty {
				return fmt.Sprintf("enum %s has members %x, the type has constructors %x", gt, keys(got), keys(ids))
			}
		default:
			return "unexpected kind " + n.Kind
		}
		return ""
	}
	seen := map[uint32]bool{}
	for _, df := range defs {
		seen[df.ID] = true
		t, ok := byCRC[df.ID]
		if !ok {
			viol("reflect|not-registered|"+defKind(df), fmt.Sprintf("%s#%08x is not registered by the generated package", df.Name, df.ID))
			continue
		}
		if t.Enum {
			if len(df.Params) != 0 {
				viol("reflect|enum-with-params", df.Name)
			}
			continue
		}
		params := df.NonFlagParams()
		if len(t.Fields) != len(params) {
			viol("reflect|field-count|"+defKind(df), fmt.Sprintf("%s: %d fields, %d parameters", df.Name, len(t.Fields), len(params)))
			continue
		}
		for i, p := range params {
			f := t.Fields[i]
			wantTag := ""
			if p.CondBit >= 0 {
				wantTag = fmt.Sprintf("flag:%d", p.CondBit)
			}
			if p.Type.Name == "true" {
				wantTag += ",encoded_in_bitflags"
			}
			if f.Tag != wantTag {
				viol("reflect|tag|"+paramClass(p), fmt.Sprintf("%s.%s: tag %q, want %q (%s)", df.Name, p.Name, f.Tag, wantTag, p.Raw))
			}
			if why := typeOK(p.Type, f.Type); why != "" {
				viol("reflect|field-type|"+p.Type.Name, fmt.Sprintf("%s.%s (%s) is held in %s: %s", df.Name, p.Name, p.Raw, f.Type, why))
			}
		}
		if fi := df.FlagsIndex(); fi != t.FlagIndex {
			viol("reflect|flags-position", fmt.Sprintf("%s: flags word is parameter #%d, FlagIndex() = %d", df.Name, fi, t.FlagIndex))
		}
	}
	for crc, t := range byCRC {
		if !seen[crc] {
			viol("reflect|extra-registration", fmt.Sprintf("%s is registered under %08x, which the schema does not define", t.Type, crc))
		}
	}
	// Client methods are required to compile (they are part of the generated package) but their signatures
	// are not compared here: the statement speaks of constructors, ids, field layouts and flag positions; the
	// shipped layer's methods are checked end to end by C13.
	_ = d.Methods
}

func defKind(d *tlschema.Def) string {
	if d.Func {
		return "function"
	}
	return "constructor"
}

func keys(m map[uint32]bool) []uint32 {
	var k []uint32
	for x := range m {
		k = append(k, x)
	}
	sort.Slice(k, func(i, j int) bool { return k[i] < k[j] })
	return k
}

// shipped: the generator's own input must be accepted end to end; the other schemes/ files only need a
// total parser.
// readDir returns the regular files of a directory by name.
func readDir(dir string) map[string][]byte {
	files := map[string][]byte{}
	es, _ := os.ReadDir(dir)
	for _, en := range es {
		b, _ := os.ReadFile(filepath.Join(dir, en.Name()))
		files[en.Name()] = b
	}
	return files
}

// regenerate runs the generator for schemaFile into a directory that already holds the files `prior` (the output of
// an earlier generation, as when `go generate` is run again after the schema changed) and compares the result with
// `want`, the output of the same schema into an empty directory.
func (e *env) regenerate(work, schemaFile string, prior, want map[string][]byte, what string, viol func(stage, what string)) bool {
	os.RemoveAll(work)
	os.MkdirAll(work, 0o755)
	defer os.RemoveAll(work)
	for n, b := range prior {
		os.WriteFile(filepath.Join(work, n), b, 0o644)
	}
	o, err := e.sh(filepath.Dir(work), []string{"VERIF_MAP_PERM=0"}, e.tlgen, schemaFile, work)
	if err != nil {
		viol("regenerate|generate|"+vr.MsgClass(firstLine(o)), what+": tlgen fails: "+firstLine(o))
		return false
	}
	got := readDir(work)
	for n, b := range want {
		if !bytes.Equal(b, got[n]) {
			viol("regenerate|differs-from-fresh-output|"+n, fmt.Sprintf("%s: %s (%d bytes) differs from the file generated into an empty directory (%d bytes)", what, n, len(got[n]), len(b)))
			return false
		}
	}
	return true
}

func (e *env) shipped() {
	run := e.run
	ents, _ := os.ReadDir(filepath.Join(e.repo, "schemes"))
	for _, en := range ents {
		if !strings.HasSuffix(en.Name(), ".tl") {
			continue
		}
		b, _ := os.ReadFile(filepath.Join(e.repo, "schemes", en.Name()))
		p, pm, fr := vr.Try(func() { tlparser.ParseSchema(string(b)) })
		run.Eval("totality "+en.Name(), true)
		if p {
			run.Violation("schemes|"+en.Name()+"|parser-panic|"+vr.MsgClass(pm)+"|"+fr, en.Name()+": ParseSchema panics: "+pm, nil)
		}
	}
	// which file is the generator's input? telegram/generate.go names it
	gen, _ := os.ReadFile(filepath.Join(e.repo, "telegram", "generate.go"))
	input := "api_latest.tl"
	if i := strings.Index(string(gen), "../schemes/"); i >= 0 {
		rest := string(gen)[i+len("../schemes/"):]
		input = strings.Fields(rest)[0]
	}
	text, err := os.ReadFile(filepath.Join(e.repo, "schemes", input))
	if err != nil {
		run.Violation("shipped|input-missing", "generator input "+input+" not found", nil)
		return
	}
	rep := map[string]any{"Features": []string{"shipped:" + input}}
	viol := func(stage, what string) {
		run.Violation("shipped:"+input+"|"+stage, "shipped generator input "+input+": "+what, rep)
	}
	ref, err := tlschema.Parse(string(text))
	if err != nil {
		vr.HarnessError("reference parser on %s: %v", input, err)
	}
	run.Eval("shipped "+input, true)
	if !e.compareParser(string(text), ref, viol) {
		return
	}
	dir := filepath.Join(e.scratch, "shipped")
	os.MkdirAll(dir, 0o755)
	var first map[string][]byte
	for perm := 0; perm < 3; perm++ {
		out := filepath.Join(dir, fmt.Sprintf("out%d", perm))
		os.MkdirAll(out, 0o755)
		o, err := e.sh(dir, []string{fmt.Sprintf("VERIF_MAP_PERM=%d", perm)}, e.tlgen, filepath.Join(e.repo, "schemes", input), out)
		if err != nil {
			viol("generate|"+vr.MsgClass(firstLine(o)), "tlgen fails: "+firstLine(o))
			return
		}
		files := map[string][]byte{}
		es, _ := os.ReadDir(out)
		for _, en := range es {
			b, _ := os.ReadFile(filepath.Join(out, en.Name()))
			files[en.Name()] = b
		}
		if first == nil {
			first = files
			continue
		}
		for n, b := range first {
			if !bytes.Equal(b, files[n]) {
				viol("nondeterministic|"+n, fmt.Sprintf("%s differs between map orders", n))
				return
			}
		}
	}
	// regeneration histories over the shipped api schemas: B into the directory that holds A's output == B fresh
	inputReal, _ := filepath.EvalSymlinks(filepath.Join(e.repo, "schemes", input))
	nre := 0
	for _, en := range ents {
		other := filepath.Join(e.repo, "schemes", en.Name())
		if real, _ := filepath.EvalSymlinks(other); !strings.HasPrefix(en.Name(), "api_") || !strings.HasSuffix(en.Name(), ".tl") || real == inputReal || real != other {
			continue
		}
		fresh := filepath.Join(dir, "fresh-"+en.Name())
		os.MkdirAll(fresh, 0o755)
		if o, err := e.sh(dir, []string{"VERIF_MAP_PERM=0"}, e.tlgen, other, fresh); err != nil {
			run.Count("regeneration_histories_skipped_generator_refuses_"+en.Name(), 1)
			_ = o
			continue
		}
		fo := readDir(fresh)
		os.RemoveAll(fresh)
		nre += 2
		run.Eval("regenerate "+en.Name()+" over "+input, true)
		e.regenerate(filepath.Join(dir, "regen"), other, first, fo, en.Name()+" generated into the directory holding the output of "+input, viol)
		run.Eval("regenerate "+input+" over "+en.Name(), true)
		e.regenerate(filepath.Join(dir, "regen"), filepath.Join(e.repo, "schemes", input), fo, first, input+" generated into the directory holding the output of "+en.Name(), viol)
	}
	run.Set("regeneration_histories_over_shipped_schemas", nre)
	dump, out, err := e.compileAndProbe(dir, 0, first)
	if err != nil {
		viol("compile|"+compileClass(out), "the generated package does not compile: "+firstLines(out, 3))
		return
	}
	e.compareDump(ref, dump, viol)
}
