package main

// probeMain is the source of the reflection probe that is compiled together
// with each generated package (as a virtual package of the repository module,
// so that it may import internal/encoding/tl).
const probeMain = `package main

import (
	"encoding/json"
	"os"
	"reflect"
	"sort"

	"github.com/xelaj/mtproto/internal/encoding/tl"
	gen "IMPORTPATH"
)

type field struct{ Name, Type, Kind, Tag string }
type typ struct {
	CRC       uint32
	Type      string
	Enum      bool
	Fields    []field
	FlagIndex int
}
type named struct {
	Kind    string
	Members []uint32
}
type method struct {
	Name string
	In   []string
	Out  []string
}
type dump struct {
	Types   []typ
	Named   map[string]named
	Methods []method
}

func main() {
	d := dump{Named: map[string]named{}}
	reg := tl.VerifRegistry()
	enums := tl.VerifEnums()
	var note func(t reflect.Type)
	note = func(t reflect.Type) {
		switch t.Kind() {
		case reflect.Slice:
			note(t.Elem())
		case reflect.Ptr:
			if t.Elem().Kind() == reflect.Struct {
				if o, ok := reflect.New(t.Elem()).Interface().(tl.Object); ok {
					d.Named[t.String()] = named{Kind: "ptr", Members: []uint32{o.CRC()}}
				} else {
					d.Named[t.String()] = named{Kind: "ptr-not-object"}
				}
			}
		case reflect.Interface:
			n := named{Kind: "interface"}
			for crc, rt := range reg {
				if rt.Implements(t) && !enums[crc] {
					n.Members = append(n.Members, crc)
				}
			}
			sort.Slice(n.Members, func(i, j int) bool { return n.Members[i] < n.Members[j] })
			d.Named[t.String()] = n
		case reflect.Uint32:
			n := named{Kind: "enum"}
			for crc, rt := range reg {
				if rt == t {
					n.Members = append(n.Members, crc)
				}
			}
			sort.Slice(n.Members, func(i, j int) bool { return n.Members[i] < n.Members[j] })
			d.Named[t.String()] = n
		}
	}
	for crc, rt := range reg {
		t := typ{CRC: crc, Type: rt.String(), Enum: enums[crc], FlagIndex: -1}
		if rt.Kind() == reflect.Ptr && rt.Elem().Kind() == reflect.Struct {
			st := rt.Elem()
			for i := 0; i < st.NumField(); i++ {
				f := st.Field(i)
				t.Fields = append(t.Fields, field{f.Name, f.Type.String(), f.Type.Kind().String(), f.Tag.Get("tl")})
				note(f.Type)
			}
			if g, ok := reflect.New(st).Interface().(tl.FlagIndexGetter); ok {
				t.FlagIndex = g.FlagIndex()
			}
		}
		d.Types = append(d.Types, t)
	}
	sort.Slice(d.Types, func(i, j int) bool { return d.Types[i].CRC < d.Types[j].CRC })
	ct := reflect.TypeOf(&gen.Client{})
	for i := 0; i < ct.NumMethod(); i++ {
		m := ct.Method(i)
		mm := method{Name: m.Name}
		for j := 1; j < m.Type.NumIn(); j++ {
			mm.In = append(mm.In, m.Type.In(j).String())
			note(m.Type.In(j))
		}
		for j := 0; j < m.Type.NumOut(); j++ {
			mm.Out = append(mm.Out, m.Type.Out(j).String())
			note(m.Type.Out(j))
		}
		d.Methods = append(d.Methods, mm)
	}
	json.NewEncoder(os.Stdout).Encode(d)
}
`

const stubClient = `package telegram

import "reflect"

// Client is a stand-in for the hand-written client the generated methods are attached to.
type Client struct{}

func (c *Client) MakeRequest(v interface{}) (interface{}, error) { return nil, nil }

func (c *Client) MakeRequestWithHintToDecoder(v interface{}, t ...reflect.Type) (interface{}, error) {
	return nil, nil
}
`
