package main

import (
	"fmt"
	"regexp"
	"strings"
)

// A schema under test is built from a base and a set of features; every feature
// adds or rewrites definitions. Ids are arbitrary distinct constants (the
// generator does not derive them).

type schemaDoc struct {
	types, funcs []string
	// a second pair of sections after the first one (---types--- switches back)
	types2, funcs2 []string
	nextID       uint32
}

func (d *schemaDoc) id() string {
	d.nextID++
	return fmt.Sprintf("%08x", 0x10000000+d.nextID*0x01010101)
}
func (d *schemaDoc) typ(format string, a ...any) {
	d.types = append(d.types, strings.Replace(fmt.Sprintf(format, a...), "#ID", "#"+d.id(), 1))
}
func (d *schemaDoc) fn(format string, a ...any) {
	d.funcs = append(d.funcs, strings.Replace(fmt.Sprintf(format, a...), "#ID", "#"+d.id(), 1))
}

var defRe = regexp.MustCompile(`^([A-Za-z][A-Za-z0-9_.]*)#[0-9a-f]+ .*= ([A-Za-z][A-Za-z0-9_.<>]*);$`)

// applyUnique applies a feature and then renames every constructor and type the feature itself defined with a
// suffix unique to the feature, so that any two features can be combined in one schema.
func (d *schemaDoc) applyUnique(f feature, idx int) {
	nt, nf := len(d.types), len(d.funcs)
	before := map[string]bool{}
	for _, l := range append(append([]string{}, d.types...), d.funcs...) {
		if m := defRe.FindStringSubmatch(l); m != nil {
			before[m[1]], before[m[2]] = true, true
		}
	}
	f.apply(d)
	sfx := fmt.Sprintf("F%d", idx)
	var mine []*string
	for i := range d.types {
		if i >= nt || !beforeLine(d.types[i], before) {
			mine = append(mine, &d.types[i])
		}
	}
	for i := nf; i < len(d.funcs); i++ {
		mine = append(mine, &d.funcs[i])
	}
	names := map[string]bool{}
	for _, l := range mine {
		if m := defRe.FindStringSubmatch(*l); m != nil {
			for _, n := range []string{m[1], m[2]} {
				if !before[n] && n != "Bool" && n != "int" && n != "long" && n != "string" && !strings.HasPrefix(n, "Vector") {
					names[n] = true
				}
			}
		}
	}
	for n := range names {
		re := regexp.MustCompile(`(^|[ :<?])` + regexp.QuoteMeta(n) + `([#;> ]|$)`)
		for _, l := range mine {
			if strings.HasPrefix(*l, "//") {
				continue
			}
			for k := 0; k < 3; k++ { // overlapping matches
				*l = re.ReplaceAllString(*l, "${1}"+n+sfx+"${2}")
			}
		}
	}
}

func beforeLine(l string, before map[string]bool) bool {
	m := defRe.FindStringSubmatch(l)
	return m == nil || before[m[1]]
}

func (d *schemaDoc) text(crlf bool) string {
	lines := append([]string{}, d.types...)
	lines = append(lines, "", "---functions---", "")
	lines = append(lines, d.funcs...)
	if len(d.types2) > 0 {
		lines = append(lines, "", "---types---", "")
		lines = append(lines, d.types2...)
	}
	if len(d.funcs2) > 0 {
		lines = append(lines, "", "---functions---", "")
		lines = append(lines, d.funcs2...)
	}
	nl := "\n"
	if crlf {
		nl = "\r\n"
	}
	return strings.Join(lines, nl) + nl
}

func base() *schemaDoc {
	d := &schemaDoc{}
	d.typ("colorRed#ID = Color;")
	d.typ("colorBlue#ID = Color;")
	d.typ("point#ID x:int y:int = Point;")
	d.typ("shapeCircle#ID center:Point r:int = Shape;")
	d.typ("shapeSquare#ID corner:Point side:int color:Color = Shape;")
	d.fn("getShape#ID id:int = Shape;")
	d.fn("getPoint#ID = Point;")
	return d
}

type feature struct {
	idx   int
	name  string
	apply func(d *schemaDoc)
	crlf  bool
	noEOL bool // the file ends right after the last ';'
}

func features() []feature {
	var fs []feature
	add := func(name string, f func(d *schemaDoc)) { fs = append(fs, feature{name: name, apply: f}) }
	add("ctor-named-as-type(single)", func(d *schemaDoc) { d.typ("user#ID id:int = User;"); d.fn("getUser#ID = User;") })
	add("ctor-named-as-type(multi)", func(d *schemaDoc) {
		d.typ("chat#ID id:int = Chat;")
		d.typ("chatEmpty#ID id:long = Chat;")
		d.fn("getChat#ID = Chat;")
	})
	add("snake-ctor-named-as-type(multi)", func(d *schemaDoc) {
		d.typ("bad_msg_note#ID id:int = BadMsgNote;")
		d.typ("bad_server_note#ID id:long = BadMsgNote;")
		d.fn("getNote#ID = BadMsgNote;")
	})
	add("snake-ctor-named-as-type(single)", func(d *schemaDoc) { d.typ("new_session_made#ID id:int = NewSessionMade;"); d.fn("getMade#ID = NewSessionMade;") })
	add("namespaced-ctor-named-as-type(multi)", func(d *schemaDoc) {
		d.typ("store.item#ID id:int = store.Item;")
		d.typ("store.itemEmpty#ID = store.Item;")
		d.fn("store.getItem#ID = store.Item;")
	})
	add("sections-switch-back-and-forth", func(d *schemaDoc) {
		d.types2 = append(d.types2, strings.Replace("lateBeta#ID x:int = LateBeta;", "#ID", "#"+d.id(), 1))
		d.funcs2 = append(d.funcs2, strings.Replace("getLateBeta#ID = LateBeta;", "#ID", "#"+d.id(), 1))
	})
	for _, n := range []string{"interval", "stringPair", "longPoll", "bytesBlob", "doubleValue", "vectorClock", "trueColor", "flagsHolder", "boolBox"} {
		n := n
		add("name-starts-like-a-builtin:"+n, func(d *schemaDoc) {
			d.typ("%s#ID a:int = %s;", n, strings.ToUpper(n[:1])+n[1:]+"T")
			d.fn("%sGet#ID a:int = %s;", n, strings.ToUpper(n[:1])+n[1:]+"T")
		})
	}
	for _, p := range []string{"int", "long", "double", "string", "bytes", "Bool"} {
		p := p
		add("param:"+p, func(d *schemaDoc) { d.typ("holder%s#ID a:%s b:int = Holder%s;", strings.Title(p), p, strings.Title(p)) })
		add("param:Vector<"+p+">", func(d *schemaDoc) {
			d.typ("vecHolder%s#ID a:Vector<%s> = VecHolder%s;", strings.Title(p), p, strings.Title(p))
		})
	}
	add("param:Vector<struct>", func(d *schemaDoc) { d.typ("poly#ID pts:Vector<Point> = Poly;") })
	add("param:Vector<interface>", func(d *schemaDoc) { d.typ("scene#ID shapes:Vector<Shape> = Scene;") })
	add("param:Vector<enum>", func(d *schemaDoc) { d.typ("palette#ID colors:Vector<Color> = Palette;") })
	for _, n := range []int{0, 1, 15, 30, 31} {
		for _, t := range []string{"true", "int", "string", "Vector<int>", "Point", "Shape", "Color"} {
			n, t := n, t
			if n != 0 && n != 31 && t != "true" && t != "int" {
				continue
			}
			add(fmt.Sprintf("flags.%d?%s", n, t), func(d *schemaDoc) {
				d.typ("opt#ID flags:# a:int f:flags.%d?%s z:int = Opt;", n, t)
			})
		}
	}
	add("shared-bit(2)", func(d *schemaDoc) { d.typ("pair#ID flags:# s:flags.4?string e:flags.4?Vector<int> = PairT;") })
	add("shared-bit(3)", func(d *schemaDoc) {
		d.typ("triple#ID flags:# has:flags.2?true a:flags.2?int b:flags.2?Point c:flags.3?long = Triple;")
	})
	add("flags-not-first", func(d *schemaDoc) { d.typ("late#ID a:int b:string flags:# c:flags.0?int d:flags.1?true = Late;") })
	add("flags-in-function", func(d *schemaDoc) { d.fn("search#ID flags:# q:string limit:flags.0?int peer:flags.1?Shape = Shape;") })
	add("namespaced", func(d *schemaDoc) {
		d.typ("geo.pointA#ID lat:double = geo.Place;")
		d.typ("geo.pointB#ID lat:double long:double = geo.Place;")
		d.typ("geo.region#ID name:string center:geo.Place = geo.Region;")
		d.fn("geo.getRegion#ID id:int = geo.Region;")
	})
	add("annotations", func(d *schemaDoc) {
		d.types = append([]string{"// @type A colour of a shape.", "// @enum The red one."}, d.types...)
		d.types = append(d.types, "// @type Docs.", "// @constructor A documented constructor.", "// @param id The identifier", "// @param name The name")
		d.typ("doc#ID id:int name:string = Doc;")
		d.funcs = append(d.funcs, "// @method Fetches a doc.", "// @param id The identifier")
		d.fn("getDoc#ID id:int = Doc;")
	})
	add("plain-comment", func(d *schemaDoc) {
		d.types = append([]string{"// a plain comment, as the shipped schema has at its top"}, d.types...)
		d.types = append(d.types, "// another plain comment", "//no space after slashes")
	})
	add("blank-lines", func(d *schemaDoc) { d.types = append([]string{"", ""}, append(d.types, "", "")...) })
	fs = append(fs, feature{name: "crlf", apply: func(d *schemaDoc) {}, crlf: true})
	fs = append(fs, feature{name: "no-newline-at-end-of-file", apply: func(d *schemaDoc) {}, noEOL: true})
	for _, r := range []string{"Point", "Shape", "Color", "Bool", "int", "long", "string", "Vector<int>", "Vector<long>", "Vector<Point>", "Vector<Shape>", "Vector<Color>"} {
		r := r
		add("returns:"+r, func(d *schemaDoc) { d.fn("fetch#ID id:int = %s;", r) })
	}
	add("function-0-params", func(d *schemaDoc) { d.fn("ping0#ID = Point;") })
	add("function-5-params", func(d *schemaDoc) { d.fn("five#ID a:int b:int c:string d:long e:Point = Point;") })
	add("function-6-params", func(d *schemaDoc) { d.fn("six#ID a:int b:int c:string d:long e:Point f:Shape = Point;") })
	add("function-vector-then-scalar", func(d *schemaDoc) { d.fn("vs#ID ids:Vector<int> limit:int = Point;") })
	add("function-scalar-then-vector", func(d *schemaDoc) { d.fn("sv#ID limit:long ids:Vector<long> name:string = Point;") })
	add("function-vector-vector", func(d *schemaDoc) { d.fn("vv#ID a:Vector<string> b:Vector<string> c:string = Point;") })
	add("function-struct-then-vector-of-it", func(d *schemaDoc) { d.fn("pv#ID p:Point ps:Vector<Point> s:Shape ss:Vector<Shape> = Point;") })
	add("function-same-typed-params", func(d *schemaDoc) { d.fn("swap#ID first:string second:string third:int fourth:int = Point;") })
	for _, n := range []string{"c", "params", "err", "resp", "type", "range", "default", "responseData", "ok", "errors", "reflect", "func", "tl"} {
		n := n
		add("param-named:"+n, func(d *schemaDoc) { d.fn("odd#ID %s:int other:string = Point;", n) })
	}
	// an enumeration with a single value, used as a field, as a vector item and as a result
	add("single-value-enum-referenced", func(d *schemaDoc) {
		d.typ("onlyModeOn#ID = OnlyMode;")
		d.typ("modeHolder#ID m:OnlyMode ms:Vector<OnlyMode> f:int = ModeHolder;")
		d.fn("getMode#ID h:ModeHolder = OnlyMode;")
	})
	// an enumeration value named like its type (as `null = Null` in Telegram's schemas), alone and among others
	add("enum-value-named-as-type(single)", func(d *schemaDoc) {
		d.typ("nothing#ID = Nothing;")
		d.typ("nothingHolder#ID n:Nothing f:int = NothingHolder;")
		d.fn("getNothing#ID = Nothing;")
	})
	add("enum-value-named-as-type(multi)", func(d *schemaDoc) {
		d.typ("mode#ID = Mode;")
		d.typ("modeOff#ID = Mode;")
		d.fn("getTheMode#ID m:Mode = Mode;")
	})
	// constructors of one type that do not follow each other (layer-ordered schemas append new constructors at
	// the end): a type, an enumeration, and a type continued in a second types section
	add("constructors-of-a-type-not-adjacent", func(d *schemaDoc) {
		d.typ("animalCat#ID lives:int = Animal;")
		d.typ("plant#ID name:string = Plant;")
		d.typ("animalDog#ID name:string = Animal;")
		d.fn("getAnimal#ID p:Plant = Animal;")
	})
	add("enum-values-not-adjacent", func(d *schemaDoc) {
		d.typ("dirUp#ID = Dir;")
		d.typ("mid#ID x:int d:Dir = Mid;")
		d.typ("dirDown#ID = Dir;")
		d.fn("getDir#ID m:Mid = Dir;")
	})
	add("type-continued-in-a-second-types-section", func(d *schemaDoc) {
		d.typ("fruitApple#ID a:int = Fruit;")
		d.types2 = append(d.types2, strings.Replace("fruitPear#ID b:string = Fruit;", "#ID", "#"+d.id(), 1))
		d.fn("getFruit#ID = Fruit;")
	})
	add("field-named-like-method", func(d *schemaDoc) { d.typ("weird#ID crc:int flag_index:int = Weird;") })
	return fs
}
