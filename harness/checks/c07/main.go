// C07 — key exchange aborts on any inconsistent server reply and persists nothing.
// One fault per run, every entry of the menu run, around the conformant exchange of C06.
package main

import (
	"encoding/binary"
	"fmt"
	"github.com/xelaj/mtproto/zverif/vrand"
	"strings"

	"github.com/xelaj/mtproto/zverif/freepass"
	"github.com/xelaj/mtproto/zverif/ref/mtp1"

	"github.com/xelaj/mtproto/zverif/hs"
	"github.com/xelaj/mtproto/zverif/ref/authsrv"
	"github.com/xelaj/mtproto/zverif/sched"
	"github.com/xelaj/mtproto/zverif/sess"
	"github.com/xelaj/mtproto/zverif/vr"
)

func menu(thorough bool) []authsrv.Fault {
	var m []authsrv.Fault
	bits := []int{0, 1, 7, 8, 63, 64, 120, 127}
	if thorough {
		bits = nil
		for i := 0; i < 128; i++ {
			bits = append(bits, i)
		}
	}
	for _, f := range []string{"resPQ.nonce", "dh.nonce", "dh.server_nonce", "inner.nonce", "inner.server_nonce", "gen.nonce", "gen.server_nonce", "gen.hash"} {
		for _, b := range bits {
			m = append(m, authsrv.Fault{Where: f, How: fmt.Sprintf("flip:%d", b)})
		}
		for _, how := range []string{"fresh", "other", "zero"} {
			m = append(m, authsrv.Fault{Where: f, How: how})
		}
	}
	// echoes that are the right digits at the wrong place; run on an exchange whose nonce and server_nonce start
	// with a zero byte (lzBase), where dropping leading zeros makes them look right
	for _, f := range []string{"resPQ.nonce", "dh.nonce", "dh.server_nonce", "inner.nonce", "inner.server_nonce", "gen.nonce", "gen.server_nonce"} {
		for _, how := range []string{"shift-left", "shift-right"} {
			m = append(m, authsrv.Fault{Where: f, How: how})
		}
	}
	for _, how := range []string{"none", "empty", "swapped"} {
		m = append(m, authsrv.Fault{Where: "resPQ.fingerprints", How: how})
	}
	sb := []int{0, 7, 80, 159}
	if thorough {
		sb = nil
		for i := 0; i < 160; i++ {
			sb = append(sb, i)
		}
	}
	for _, b := range sb {
		m = append(m, authsrv.Fault{Where: "inner.sha1", How: fmt.Sprintf("flip:%d", b)})
	}
	m = append(m, authsrv.Fault{Where: "inner.content", How: "flip"},
		authsrv.Fault{Where: "inner.ciphertext", How: "truncate-block"}, authsrv.Fault{Where: "inner.ciphertext", How: "odd-length"})
	for blk := 0; blk < 40; blk++ {
		m = append(m, authsrv.Fault{Where: "inner.ciphertext", How: fmt.Sprintf("flip-block:%d", blk)})
	}
	for _, how := range []string{"pong", "resPQ-like", "unregistered"} {
		m = append(m, authsrv.Fault{Where: "inner.kind", How: how}) // the decrypted answer is an object of another kind
	}
	m = append(m, authsrv.Fault{Where: "dh.kind", How: "fail"}, authsrv.Fault{Where: "gen.kind", How: "retry"}, authsrv.Fault{Where: "gen.kind", How: "fail"})
	for step := 0; step < 3; step++ {
		m = append(m, authsrv.Fault{Where: fmt.Sprintf("reply.kind@%d", step), How: "unrelated"})
	}
	return m
}

// followUps: what a server may still send on the connection after the client abandoned the exchange. Nothing
// of it may make the client store a session or send an encrypted frame.
var followUpNames = []string{"none", "plain new_session_created", "plain bad_server_salt", "encrypted new_session_created under the abandoned key", "plain dh_gen_ok again", retryName}

// the application tries again on the same client object (Disconnect, CreateConnection): whatever the abandoned
// exchange left in the object, the second attempt is a key exchange of its own - abandoned like the first when
// the server's replies are inconsistent again
const retryName = "CreateConnection again on the same client"

func le64(v uint64) []byte { return binary.LittleEndian.AppendUint64(nil, v) }
func le32(v uint32) []byte { return binary.LittleEndian.AppendUint32(nil, v) }

func plainFrame(msgID int64, body []byte) []byte {
	f := append(le64(0), le64(uint64(msgID))...)
	f = append(f, le32(uint32(len(body)))...)
	return append(f, body...)
}

func followUp(k int, a *authsrv.Server) []byte {
	const msgID = int64(1700000000)<<32 | 0x4001
	nsc := append(le32(0x9ec20908), append(le64(5), append(le64(77), le64(0x0123456789)...)...)...)
	switch k {
	case 1:
		return plainFrame(msgID, nsc)
	case 2:
		bss := append(le32(0xedab447b), append(le64(uint64(msgID-0x4001)), append(le32(1), append(le32(48), le64(0x0abcdef123)...)...)...)...)
		return plainFrame(msgID, bss)
	case 3:
		if len(a.AuthKey) != 256 {
			return nil
		}
		m := mtp1.Msg{Salt: a.Salt, Session: 0, MsgID: msgID, SeqNo: 1, Body: nsc}
		return mtp1.Seal(a.AuthKey, m, make([]byte, mtp1.PadLen(len(nsc))), 8)
	case 4:
		if len(a.Nonce) != 16 {
			return nil
		}
		gen := append(le32(0x3bcbf734), a.Nonce...)
		gen = append(gen, a.C.ServerNonce...)
		gen = append(gen, make([]byte, 16)...)
		return plainFrame(msgID, gen)
	}
	return nil
}

func faultClass(f authsrv.Fault) string {
	how := f.How
	if i := strings.IndexByte(how, ':'); i >= 0 {
		how = how[:i]
	}
	return f.Where + "=" + how
}

func main() {
	run := vr.New("C07", "fault_enumeration")
	defer run.Recover()
	freepass.MaybeReplay(run)
	sched.OnSpin = func(frame string) {
		run.Violation("hangs|cpu-spin|"+frame, "the key exchange never completes: a client thread has been computing inside "+frame+" for 120 s without reaching any synchronisation point (a loop that does not end); the exploration stops here", map[string]any{"fault": "cpu-spin", "frame": frame})
		run.Truncated("stopped at a non-terminating computation in the library")
		run.Finish()
	}
	run.Rule("a conformant exchange (reference server R3, real client under the controlled scheduler, default schedule) with exactly one fault from the menu: every echoed nonce/server_nonce/new_nonce_hash field of every reply x {bit flips, fresh value, the other nonce, zero}; fingerprint list {none matching, empty, halves swapped}; SHA-1 prefix bit flips, content change without fixing the prefix, ciphertext truncated by a block, odd length, a flipped bit in each ciphertext block; failure/retry constructors; an unrelated reply at each step; a correctly sealed inner answer of another kind (pong, dh_gen_ok, unregistered id); every fault alone and followed by each of 4 further server messages on the same connection after the abort (plain new_session_created, plain bad_server_salt, new_session_created sealed under the abandoned key, a second dh_gen_ok); plus key histories: after a conformant exchange with test key A, a client configured with key B against a server offering only the fingerprint of A (all 6 ordered pairs); all entries are run; non-trivial = distinct fault")
	run.Assume("the unfaulted exchange succeeds (checked first, and by C06)", "a fault that makes the server itself unable to continue (it never answers) is not in the menu: the client has no timeout, which is not what this property states")
	base := hs.Base()
	// sanity: the unfaulted exchange succeeds
	w0 := sess.Run(hs.Scenario("no-fault", base, 3), nil, false)
	run.Eval("no-fault", false)
	if w0.ConnErr != nil || w0.ConnPanic != "" || !w0.ConnReturned || len(w0.Store.Stores) == 0 {
		run.Violation("baseline-exchange-fails", fmt.Sprintf("the unfaulted exchange does not succeed: err=%v panic=%s returned=%v", w0.ConnErr, w0.ConnPanic, w0.ConnReturned), nil)
		run.Finish()
	}
	faults := menu(run.Thorough())
	for i, f := range faults {
		for fu := range followUpNames {
			f := f
			cfg := base
			shifted := strings.HasPrefix(f.How, "shift")
			if shifted {
				cfg.ServerNonce = append([]byte{0}, base.ServerNonce[:15]...)
				if f.How == "shift-right" {
					cfg.ServerNonce = append(append([]byte{}, base.ServerNonce[:15]...), 0)
				}
			}
			cfg.Fault = &f
			id := "fault " + f.String()
			if fu > 0 {
				id += " then " + followUpNames[fu]
			}
			sc := hs.Scenario(id, cfg, uint64(3+i%4))
			if shifted {
				// the client's own nonce (its first 16-byte draw) starts (ends) with a zero byte too
				nonce := []byte{0, 0xc1, 0xb2, 0xa3, 0x94, 0x85, 0x76, 0x67, 0x58, 0x49, 0x3a, 0x2b, 0x1c, 0x0d, 0xfe, 0x8f}
				if f.How == "shift-right" {
					nonce = append(nonce[1:], 0)
				}
				sc.Setup = func(*sess.World) { vrand.Force("bytes", nonce) }
			}
			pushed := false
			retried, retryConformant := false, false
			var retryErr error
			retryPanic := ""
			sc.AfterConnectFailure = func(w *sess.World) {
				if followUpNames[fu] == retryName {
					if w.Auth == nil || !w.Auth.Applied || w.ConnPanic != "" {
						return
					}
					pushed, retried = true, true
					w.M.Disconnect()
					steps := len(w.Auth.Steps)
					w.Auth.Applied = false
					if pn, pm, fr := vr.Try(func() { retryErr = w.M.CreateConnection() }); pn {
						retryPanic = pm + " in " + fr
					}
					// a retry during which the server saw a complete exchange and had no occasion to inject the fault
					// again (faults tied to the n-th reply of the server's life) may of course succeed
					retryConformant = retryPanic == "" && !w.Auth.Applied && len(w.Auth.Steps) == steps+3
					w.Auth.Applied = true
					w.M.Disconnect()
					return
				}
				if fu > 0 && len(w.Net.Conns) > 0 && w.Auth != nil {
					if fr := followUp(fu, w.Auth); fr != nil {
						c := w.Net.Conns[len(w.Net.Conns)-1]
						pushed = true
						c.PushRaw(fr)
						// the reader takes it and goes back to waiting; if it gets stuck instead, the run ends
						// quiescent with this thread parked here (a stall is not what the property is about)
						w.S.WaitUntil("follow-up consumed", c.Drained)
					}
				}
				w.M.Disconnect()
			}
			w := sess.Run(sc, nil, false)
			if w.Auth == nil || !w.Auth.Applied {
				if fu == 0 {
					run.Add("faults_not_applicable", 1)
				}
				break // e.g. a ciphertext block index beyond the answer
			}
			if fu > 0 && !pushed {
				continue // this follow-up needs state the exchange did not reach
			}
			run.Eval(id, true)
			run.Outcome(outcome(w))
			rep := map[string]any{"fault": f.String(), "seed": 3 + i%4, "follow_up": fu}
			cls := faultClass(f)
			if fu > 0 {
				cls += "|then-" + strings.ReplaceAll(followUpNames[fu], " ", "-")
			}
			if retried {
				if retryConformant {
					run.Count("retries_that_were_a_conformant_exchange", 1)
					continue
				}
				switch {
				case retryPanic != "":
					run.Violation("panic|"+cls+"|"+vr.MsgClass(retryPanic), id+": the second CreateConnection panics: "+retryPanic, rep)
				case retryErr == nil:
					run.Violation("accepted|"+cls, fmt.Sprintf("%s: the second CreateConnection reports success although the server saw no conformant exchange (server steps %v)", id, w.Auth.Steps), rep)
				}
			}
			switch {
			case w.ConnPanic != "":
				run.Violation("panic|"+cls+"|"+vr.MsgClass(w.ConnPanic)+"|"+w.ConnPanicFrame, fmt.Sprintf("%s: CreateConnection panics instead of returning an error: %s (in %s)", id, w.ConnPanic, w.ConnPanicFrame), rep)
			case w.Fatal != nil:
				run.Violation("fatal|"+cls+"|"+vr.MsgClass(w.Fatal.Msg)+"|"+w.Fatal.Frame, fmt.Sprintf("%s: goroutine %s panics: %s", id, w.Fatal.Thread, w.Fatal.Msg), rep)
			case !w.ConnReturned:
				run.Violation("hangs|"+cls, fmt.Sprintf("%s: CreateConnection never returns; server steps %v problems %v; blocked %v", id, w.Auth.Steps, w.Auth.Problems, w.Stalled()), rep)
			case w.ConnErr == nil:
				run.Violation("accepted|"+cls, fmt.Sprintf("%s: the exchange completes without error (server steps %v)", id, w.Auth.Steps), rep)
			}
			if len(w.Store.Stores) > 0 {
				run.Violation("session-stored|"+cls, fmt.Sprintf("%s: a session was stored (%d times)", id, len(w.Store.Stores)), rep)
			}
			for _, fr := range w.Srv.Frames {
				if !fr.Plain {
					run.Violation("encrypted-frame-sent|"+cls, id+": an encrypted frame was sent", rep)
					break
				}
			}
			if w.ConnReturned && w.ConnErr != nil {
				if st := w.Stalled(); len(st) > 0 {
					// not part of the statement (error, nothing stored, nothing encrypted sent): a goroutine left
					// blocked after the abort is counted as a diagnostic only
					run.Count("diagnostic_goroutines_left_blocked_after_abort", 1)
				}
			}
		}
	}
	// ---- history of keys: after a conformant exchange with key A, a client configured with key B meets a
	// server that holds B but offers only A's fingerprint (every ordered pair of the three test keys)
	for a := 0; a < 3; a++ {
		for b := 0; b < 3; b++ {
			if a == b {
				continue
			}
			cfgA := base
			cfgA.Key = hs.Key(a)
			wa := sess.Run(hs.Scenario(fmt.Sprintf("conformant key%d", a), cfgA, 5), nil, false)
			if wa.ConnErr != nil || !wa.ConnReturned || len(wa.Store.Stores) == 0 {
				run.Violation(fmt.Sprintf("baseline-exchange-fails|key%d", a), fmt.Sprintf("the unfaulted exchange with test key %d does not succeed: %v", a, wa.ConnErr), nil)
				continue
			}
			cfgB := base
			cfgB.Key = hs.Key(b)
			fpA := authsrv.Fingerprint(&hs.Key(a).PublicKey)
			cfgB.Fingerprints = func(int64) []int64 { return []int64{fpA} }
			id := fmt.Sprintf("after an exchange with key %d: client configured with key %d, server offers only the fingerprint of key %d", a, b, a)
			sc := hs.Scenario(id, cfgB, 6)
			sc.AfterConnectFailure = func(w *sess.World) { w.M.Disconnect() }
			w := sess.Run(sc, nil, false)
			run.Eval(id, true)
			run.Outcome(outcome(w))
			rep := map[string]any{"history": "keys", "a": a, "b": b}
			switch {
			case w.ConnPanic != "":
				run.Violation("panic|key-history|"+vr.MsgClass(w.ConnPanic)+"|"+w.ConnPanicFrame, id+": CreateConnection panics: "+w.ConnPanic, rep)
			case !w.ConnReturned:
				run.Violation("hangs|key-history", id+": CreateConnection never returns", rep)
			case w.ConnErr == nil:
				run.Violation("accepted|key-history", id+": the exchange completes without error", rep)
			}
			if len(w.Store.Stores) > 0 {
				run.Violation("session-stored|key-history", id+": a session was stored", rep)
			}
			for _, fr := range w.Srv.Frames {
				if !fr.Plain {
					run.Violation("encrypted-frame-sent|key-history", id+": an encrypted frame was sent", rep)
					break
				}
			}
		}
	}
	run.Set("faults", len(faults))
	run.Sample(map[string]any{"fault": "gen.hash=flip:127"})
	run.Sample(map[string]any{"fault": "inner.ciphertext=truncate-block"})
	freepass.Run(run, run.ID, freepass.Rounds(run))
	run.Finish()
}

func outcome(w *sess.World) string {
	switch {
	case w.ConnPanic != "":
		return "panic"
	case !w.ConnReturned:
		return "hang"
	case w.ConnErr != nil:
		return "error"
	}
	return "accepted"
}
