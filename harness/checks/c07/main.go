// C07 — key exchange aborts on any inconsistent server reply and persists nothing.
// One fault per run, every entry of the menu run, around the conformant exchange of C06.
package main

import (
	"fmt"
	"strings"

	"github.com/xelaj/mtproto/zverif/hs"
	"github.com/xelaj/mtproto/zverif/ref/authsrv"
	"github.com/xelaj/mtproto/zverif/sess"
	"github.com/xelaj/mtproto/zverif/vr"
)

func menu(thorough bool) []authsrv.Fault {
	var m []authsrv.Fault
	bits := []int{0, 1, 7, 8, 63, 64, 120, 127}
	if thorough {
		bits = nil
		for i := 0; i < 128; i++ {
			bits = append(bits, i)
		}
	}
	for _, f := range []string{"resPQ.nonce", "dh.nonce", "dh.server_nonce", "inner.nonce", "inner.server_nonce", "gen.nonce", "gen.server_nonce", "gen.hash"} {
		for _, b := range bits {
			m = append(m, authsrv.Fault{Where: f, How: fmt.Sprintf("flip:%d", b)})
		}
		for _, how := range []string{"fresh", "other", "zero"} {
			m = append(m, authsrv.Fault{Where: f, How: how})
		}
	}
	for _, how := range []string{"none", "empty", "swapped"} {
		m = append(m, authsrv.Fault{Where: "resPQ.fingerprints", How: how})
	}
	sb := []int{0, 7, 80, 159}
	if thorough {
		sb = nil
		for i := 0; i < 160; i++ {
			sb = append(sb, i)
		}
	}
	for _, b := range sb {
		m = append(m, authsrv.Fault{Where: "inner.sha1", How: fmt.Sprintf("flip:%d", b)})
	}
	m = append(m, authsrv.Fault{Where: "inner.content", How: "flip"},
		authsrv.Fault{Where: "inner.ciphertext", How: "truncate-block"}, authsrv.Fault{Where: "inner.ciphertext", How: "odd-length"})
	for blk := 0; blk < 40; blk++ {
		m = append(m, authsrv.Fault{Where: "inner.ciphertext", How: fmt.Sprintf("flip-block:%d", blk)})
	}
	m = append(m, authsrv.Fault{Where: "dh.kind", How: "fail"}, authsrv.Fault{Where: "gen.kind", How: "retry"}, authsrv.Fault{Where: "gen.kind", How: "fail"})
	for step := 0; step < 3; step++ {
		m = append(m, authsrv.Fault{Where: fmt.Sprintf("reply.kind@%d", step), How: "unrelated"})
	}
	return m
}

func faultClass(f authsrv.Fault) string {
	how := f.How
	if i := strings.IndexByte(how, ':'); i >= 0 {
		how = how[:i]
	}
	return f.Where + "=" + how
}

func main() {
	run := vr.New("C07", "fault_enumeration")
	run.Rule("a conformant exchange (reference server R3, real client under the controlled scheduler, default schedule) with exactly one fault from the menu: every echoed nonce/server_nonce/new_nonce_hash field of every reply x {bit flips, fresh value, the other nonce, zero}; fingerprint list {none matching, empty, halves swapped}; SHA-1 prefix bit flips, content change without fixing the prefix, ciphertext truncated by a block, odd length, a flipped bit in each ciphertext block; failure/retry constructors; an unrelated reply at each step; all entries are run; non-trivial = distinct fault")
	run.Assume("the unfaulted exchange succeeds (checked first, and by C06)", "a fault that makes the server itself unable to continue (it never answers) is not in the menu: the client has no timeout, which is not what this property states")
	base := hs.Base()
	// sanity: the unfaulted exchange succeeds
	w0 := sess.Run(hs.Scenario("no-fault", base, 3), nil, false)
	run.Eval("no-fault", false)
	if w0.ConnErr != nil || w0.ConnPanic != "" || !w0.ConnReturned || len(w0.Store.Stores) == 0 {
		run.Violation("baseline-exchange-fails", fmt.Sprintf("the unfaulted exchange does not succeed: err=%v panic=%s returned=%v", w0.ConnErr, w0.ConnPanic, w0.ConnReturned), nil)
		run.Finish()
	}
	faults := menu(run.Thorough())
	for i, f := range faults {
		f := f
		cfg := base
		cfg.Fault = &f
		id := "fault " + f.String()
		sc := hs.Scenario(id, cfg, uint64(3+i%4))
		sc.AfterConnectFailure = func(w *sess.World) { w.M.Disconnect() }
		w := sess.Run(sc, nil, false)
		if w.Auth == nil || !w.Auth.Applied {
			run.Add("faults_not_applicable", 1)
			continue // e.g. a ciphertext block index beyond the answer
		}
		run.Eval(id, true)
		run.Outcome(outcome(w))
		rep := map[string]any{"fault": f.String(), "seed": 3 + i%4}
		cls := faultClass(f)
		switch {
		case w.ConnPanic != "":
			run.Violation("panic|"+cls+"|"+vr.MsgClass(w.ConnPanic)+"|"+w.ConnPanicFrame, fmt.Sprintf("%s: CreateConnection panics instead of returning an error: %s (in %s)", id, w.ConnPanic, w.ConnPanicFrame), rep)
		case w.Fatal != nil:
			run.Violation("fatal|"+cls+"|"+vr.MsgClass(w.Fatal.Msg)+"|"+w.Fatal.Frame, fmt.Sprintf("%s: goroutine %s panics: %s", id, w.Fatal.Thread, w.Fatal.Msg), rep)
		case !w.ConnReturned:
			run.Violation("hangs|"+cls, fmt.Sprintf("%s: CreateConnection never returns; server steps %v problems %v; blocked %v", id, w.Auth.Steps, w.Auth.Problems, w.Stalled()), rep)
		case w.ConnErr == nil:
			run.Violation("accepted|"+cls, fmt.Sprintf("%s: the exchange completes without error (server steps %v)", id, w.Auth.Steps), rep)
		}
		if len(w.Store.Stores) > 0 {
			run.Violation("session-stored|"+cls, fmt.Sprintf("%s: a session was stored (%d times)", id, len(w.Store.Stores)), rep)
		}
		for _, fr := range w.Srv.Frames {
			if !fr.Plain {
				run.Violation("encrypted-frame-sent|"+cls, id+": an encrypted frame was sent", rep)
				break
			}
		}
		if w.ConnReturned && w.ConnErr != nil {
			if st := w.Stalled(); len(st) > 0 {
				// not part of the statement (error, nothing stored, nothing encrypted sent): a goroutine left
				// blocked after the abort is counted as a diagnostic only
				run.Count("diagnostic_goroutines_left_blocked_after_abort", 1)
			}
		}
	}
	run.Set("faults", len(faults))
	run.Sample(map[string]any{"fault": "gen.hash=flip:127"})
	run.Sample(map[string]any{"fault": "inner.ciphertext=truncate-block"})
	run.Finish()
}

func outcome(w *sess.World) string {
	switch {
	case w.ConnPanic != "":
		return "panic"
	case !w.ConnReturned:
		return "hang"
	case w.ConnErr != nil:
		return "error"
	}
	return "accepted"
}
