// C05 — AES-256-IGE and its padding wrappers, against reference R2.
package main

import (
	"bytes"
	"crypto/sha1"
	"fmt"
	"math/big"

	ige "github.com/xelaj/mtproto/internal/aes_ige"
	"github.com/xelaj/mtproto/zverif/freepass"
	"github.com/xelaj/mtproto/zverif/ref/mtp1"
	"github.com/xelaj/mtproto/zverif/vr"
	"github.com/xelaj/mtproto/zverif/vrand"
)

func pat(n int, f func(i int) byte) []byte {
	b := make([]byte, n)
	for i := range b {
		b[i] = f(i)
	}
	return b
}

var keys = [][]byte{
	pat(32, func(i int) byte { return byte(i) }),
	pat(32, func(i int) byte { return 0 }),
	pat(32, func(i int) byte { return byte(0xff - 7*i) }),
}
var ivs = [][]byte{
	pat(32, func(i int) byte { return byte(0x80 + i) }),
	pat(32, func(i int) byte { return 0 }),
	pat(32, func(i int) byte { return 0xff }),
}

func patterns(blocks int) map[string][]byte {
	n := blocks * 16
	return map[string][]byte{
		"zero":        pat(n, func(i int) byte { return 0 }),
		"incr":        pat(n, func(i int) byte { return byte(i*7 + 1) }),
		"equalblocks": pat(n, func(i int) byte { return byte(0xa0 + i%16) }),
		"alternating": pat(n, func(i int) byte { return byte((i/16%2)*0x55 + i%16) }),
	}
}

type ctx struct{ run *vr.Run }

func (c ctx) try(site, what string, rep any, f func()) bool {
	c.run.Begin(site, what, rep)
	defer c.run.End()
	p, msg, fr := vr.Try(f)
	if p {
		c.run.Violation(site+"|panic|"+vr.MsgClass(msg)+"|"+fr, what+": panic: "+msg+" in "+fr, rep)
	}
	return !p
}

func main() {
	run := vr.New("C05", "exploration")
	defer run.Recover()
	freepass.MaybeReplay(run)
	c := ctx{run}
	run.Rule("core: keys x IVs x every block count 1..N x 4 plaintext patterns (full product) compared with IGE computed from its definition on crypto/aes; refusal: every length 0..64 not a positive multiple of 16; wrappers: every payload length 0..N x leading-zero class of each nonce x producer (client itself / reference peer with the legal padding, two fillers). temp-key history: every ordered pair of nonce pairs from a 3x3 alphabet x seal/open per step. Every case is distinct; non-trivial = the call under test returned normally and the oracle compared bytes")
	run.Assume("reference R2 (harness/ref/mtp1) is trusted; it is cross-checked against the repository's shipped test vectors by C03/C05 agreeing on the unchanged tree",
		"padding bytes of the client's wrapper come from the owned vrand stream (deterministic)")
	N, M, W := 8, 80, 64
	if run.Thorough() {
		N, M, W = 64, 1040, 520
	}
	vrand.Own(5)
	defer vrand.Release()

	// (a) core
	for ki, key := range keys {
		for ii, iv := range ivs {
			for blocks := 1; blocks <= N; blocks++ {
				for pn, plain := range patterns(blocks) {
					id := fmt.Sprintf("core k%d iv%d b%d %s", ki, ii, blocks, pn)
					rep := map[string]any{"part": "core", "key": ki, "iv": ii, "blocks": blocks, "pattern": pn}
					want := mtp1.IGEEncrypt(key, iv, plain)
					in, k2, iv2 := append([]byte{}, plain...), append([]byte{}, key...), append([]byte{}, iv...)
					out := make([]byte, len(in))
					var err error
					ok := c.try("core|encrypt", id, rep, func() { err = ige.VerifIGEEncrypt(in, out, k2, iv2) })
					run.Eval(id, ok && err == nil)
					if !ok {
						continue
					}
					if err != nil {
						run.Violation("core|encrypt|error", id+": error "+err.Error(), rep)
						continue
					}
					if !bytes.Equal(out, want) {
						fb := 0
						for fb < len(out) && out[fb] == want[fb] {
							fb++
						}
						run.Violation(fmt.Sprintf("core|encrypt|differs-from-definition|firstblock=%s", blk(fb/16)), fmt.Sprintf("%s: ciphertext differs from the IGE definition from block %d", id, fb/16), rep)
					}
					if !bytes.Equal(in, plain) || !bytes.Equal(k2, key) || !bytes.Equal(iv2, iv) {
						run.Violation("core|encrypt|caller-buffer-modified", id+": input/key/iv modified", rep)
					}
					// decrypt inverts
					ct := append([]byte{}, want...)
					back := make([]byte, len(ct))
					ok = c.try("core|decrypt", id, rep, func() { err = ige.VerifIGEDecrypt(ct, back, k2, iv2) })
					if ok {
						if err != nil {
							run.Violation("core|decrypt|error", id+": error "+err.Error(), rep)
						} else if !bytes.Equal(back, plain) {
							run.Violation("core|decrypt|not-inverse", id+": decrypt(encrypt(p)) != p", rep)
						}
						if !bytes.Equal(ct, want) || !bytes.Equal(k2, key) || !bytes.Equal(iv2, iv) {
							run.Violation("core|decrypt|caller-buffer-modified", id+": input/key/iv modified", rep)
						}
					}
					// decrypt of arbitrary data equals the definition
					wantD := mtp1.IGEDecrypt(key, iv, plain)
					ok = c.try("core|decrypt", id, rep, func() { err = ige.VerifIGEDecrypt(in, back, k2, iv2) })
					if ok && err == nil && !bytes.Equal(back, wantD) {
						run.Violation("core|decrypt|differs-from-definition", id+": decryption differs from the IGE definition", rep)
					}
					// reused Cipher object: two calls; buffers of both calls must stay intact
					var ci *ige.Cipher
					ok = c.try("core|cipher-reuse", id, rep, func() {
						ci, err = ige.NewCipher(k2, iv2)
						if err == nil {
							o1, o2 := make([]byte, len(in)), make([]byte, len(in))
							in2 := append([]byte{}, plain...)
							_ = ci.VerifEncrypt(in, o1)
							_ = ci.VerifEncrypt(in2, o2)
							if !bytes.Equal(in, plain) || !bytes.Equal(in2, plain) || !bytes.Equal(o1, want) {
								run.Violation("core|cipher-reuse|buffer-modified", id+": a buffer of an earlier call was modified by a later call on the same Cipher", rep)
							}
						}
					})
					_ = ok
				}
			}
		}
	}
	// (a') one key buffer and one iv buffer reused for different keys (a caller that derives each key into the
	// same scratch space): every ordered pair of keys x ivs, second operation judged by the definition
	{
		kb, ivb := make([]byte, 32), make([]byte, 32)
		plain := patterns(3)["incr"]
		for k1 := range keys {
			for k2 := range keys {
				for i1 := range ivs {
					for i2 := range ivs {
						id := fmt.Sprintf("core shared-buffers k%d,iv%d then k%d,iv%d", k1, i1, k2, i2)
						rep := map[string]any{"part": "core-shared-buffers", "k1": k1, "k2": k2, "iv1": i1, "iv2": i2}
						out := make([]byte, len(plain))
						okc := c.try("core|shared-key-buffer", id, rep, func() {
							copy(kb, keys[k1])
							copy(ivb, ivs[i1])
							_ = ige.VerifIGEEncrypt(append([]byte{}, plain...), out, kb, ivb)
							copy(kb, keys[k2])
							copy(ivb, ivs[i2])
							_ = ige.VerifIGEEncrypt(append([]byte{}, plain...), out, kb, ivb)
						})
						run.Eval(id, okc)
						if okc && !bytes.Equal(out, mtp1.IGEEncrypt(keys[k2], ivs[i2], plain)) {
							run.Violation("core|shared-key-buffer|second-operation-differs-from-definition", id+": after the key/iv buffers were refilled, the ciphertext is not the one the definition gives for the new key and iv", rep)
						}
						okc = c.try("core|shared-key-buffer", id, rep, func() {
							copy(kb, keys[k1])
							copy(ivb, ivs[i1])
							_ = ige.VerifIGEDecrypt(append([]byte{}, plain...), out, kb, ivb)
							copy(kb, keys[k2])
							copy(ivb, ivs[i2])
							_ = ige.VerifIGEDecrypt(append([]byte{}, plain...), out, kb, ivb)
						})
						if okc && !bytes.Equal(out, mtp1.IGEDecrypt(keys[k2], ivs[i2], plain)) {
							run.Violation("core|shared-key-buffer|second-decryption-differs-from-definition", id+": after the key/iv buffers were refilled, the plaintext is not the one the definition gives for the new key and iv", rep)
						}
					}
				}
			}
		}
	}
	// (b) refusal
	for n := 0; n <= 64; n++ {
		if n > 0 && n%16 == 0 {
			continue
		}
		for dir, f := range map[string]func(d, o, k, iv []byte) error{"encrypt": ige.VerifIGEEncrypt, "decrypt": ige.VerifIGEDecrypt} {
			id := fmt.Sprintf("refuse %s len=%d", dir, n)
			rep := map[string]any{"part": "refuse", "dir": dir, "len": n}
			data := pat(n, func(i int) byte { return byte(i) })
			out := make([]byte, n+16)
			var err error
			ok := c.try("refuse|"+dir, id, rep, func() { err = f(data, out, keys[0], ivs[0]) })
			run.Eval(id, ok)
			if ok && err == nil {
				run.Violation(fmt.Sprintf("refuse|%s|accepted|len%%16=%d,zero=%v", dir, n%16, n == 0), id+": accepted", rep)
			}
		}
		// public Decrypt with a bad length
		id := fmt.Sprintf("refuse Decrypt len=%d", n)
		rep := map[string]any{"part": "refuse-public", "len": n}
		var err error
		ok := c.try("refuse|Decrypt", id, rep, func() { _, err = ige.Decrypt(pat(n, func(i int) byte { return 1 }), authKey(), make([]byte, 16)) })
		run.Eval(id, ok)
		if ok && err == nil {
			run.Violation(fmt.Sprintf("refuse|Decrypt|accepted|len%%16=%d,zero=%v", n%16, n == 0), id+": accepted", rep)
		}
	}
	// (c) message-level wrapper
	ak := authKey()
	var heldCt, heldCtCopy, heldBack, heldBackCopy []byte
	for n := 1; n <= M; n++ {
		id := fmt.Sprintf("Encrypt len=%d", n)
		rep := map[string]any{"part": "Encrypt", "len": n}
		msg := pat(n, func(i int) byte { return byte(i*3 + 1) })
		m2 := append([]byte{}, msg...)
		var out []byte
		var err error
		ok := c.try("Encrypt", id, rep, func() { out, err = ige.Encrypt(m2, ak) })
		run.Eval(id, ok && err == nil)
		if !ok {
			continue
		}
		if err != nil {
			run.Violation(fmt.Sprintf("Encrypt|error|residue=%d", n%16), id+": "+err.Error(), rep)
			continue
		}
		h := sha1.Sum(msg)
		k, iv := mtp1.KDF(ak, h[4:20], 0)
		padded := append(append([]byte{}, msg...), make([]byte, (16-n%16)%16)...)
		if want := mtp1.IGEEncrypt(k, iv, padded); !bytes.Equal(out, want) {
			run.Violation(fmt.Sprintf("Encrypt|differs|residue=%d|lenok=%v", n%16, len(out) == len(want)), fmt.Sprintf("%s: got %d bytes, want %d bytes (zero padding to the next multiple of 16, MTProto 1.0 keys x=0)", id, len(out), len(want)), rep)
		}
		if !bytes.Equal(m2, msg) {
			run.Violation("Encrypt|caller-buffer-modified", id, rep)
		}
		// the message is a part of a larger buffer of the caller (a frame, a pooled buffer): what lies behind
		// it belongs to the caller too
		{
			frame, tail := spare(msg)
			var out2 []byte
			if c.try("Encrypt", id+" (spare capacity)", rep, func() { out2, err = ige.Encrypt(frame[:n:len(frame)], ak) }) {
				if err != nil || !bytes.Equal(out2, out) {
					run.Violation("Encrypt|differs-with-spare-capacity", id+": result depends on the capacity of the argument", rep)
				}
				if !bytes.Equal(frame[:n], msg) || !bytes.Equal(frame[n:], tail) {
					run.Violation("Encrypt|caller-buffer-modified|behind-the-message", id+": bytes of the caller's buffer behind the message were overwritten", rep)
				}
			}
		}
		// receive direction: x = 8
		k8, iv8 := mtp1.KDF(ak, h[4:20], 8)
		ct := mtp1.IGEEncrypt(k8, iv8, padded)
		var back []byte
		ctCopy := append([]byte{}, ct...)
		ok = c.try("Decrypt", id, rep, func() { back, err = ige.Decrypt(ct, ak, h[4:20]) })
		if ok {
			if err != nil || !bytes.Equal(back, padded) {
				run.Violation(fmt.Sprintf("Decrypt|differs|residue=%d", n%16), id+": Decrypt of a reference server->client ciphertext is wrong", rep)
			}
			if !bytes.Equal(ct, ctCopy) {
				run.Violation("Decrypt|caller-buffer-modified", id+": Decrypt changed the ciphertext it was given", rep)
			}
			// history: what the previous call was given and what it returned stay as they were (the caller may
			// still hold both, e.g. one read buffer reused for every packet)
			if heldCt != nil && (!bytes.Equal(heldCt, heldCtCopy) || !bytes.Equal(heldBack, heldBackCopy)) {
				run.Violation("Decrypt|earlier-call-buffers-changed-by-a-later-call", id+": the ciphertext given to, or the plaintext returned by, the previous Decrypt call changed during this call", rep)
			}
			heldCt, heldCtCopy, heldBack, heldBackCopy = ct, ctCopy, back, append([]byte{}, back...)
		}
	}
	// (d) temp-key wrapper
	for _, lzNew := range []int{0, 1, 2} {
		for _, lzSrv := range []int{0, 1, 2} {
			newNonce := pat(32, func(i int) byte {
				if i < lzNew {
					return 0
				}
				return byte(0x11 + i)
			})
			srvNonce := pat(16, func(i int) byte {
				if i < lzSrv {
					return 0
				}
				return byte(0xc3 - i)
			})
			nn, sn := new(big.Int).SetBytes(newNonce), new(big.Int).SetBytes(srvNonce)
			for n := 0; n <= W; n++ {
				payload := pat(n, func(i int) byte { return byte(i + 1) })
				res := (20 + n) % 16
				cls := fmt.Sprintf("newnonce-lz=%d|srvnonce-lz=%d|residue0=%v", lzNew, lzSrv, res == 0)
				// producer: client itself, consumer: reference peer
				{
					id := fmt.Sprintf("temp self lz=%d/%d len=%d", lzNew, lzSrv, n)
					rep := map[string]any{"part": "temp-self", "lzNew": lzNew, "lzSrv": lzSrv, "len": n}
					var ct []byte
					p2 := append([]byte{}, payload...)
					ok := c.try("temp|encrypt|"+cls, id, rep, func() { ct = ige.EncryptMessageWithTempKeys(p2, nn, sn) })
					run.Eval(id, ok)
					if ok {
						if len(ct)%16 != 0 || len(ct) < 20+n || len(ct)-20-n > 15 {
							run.Violation("temp|encrypt|padding-not-0..15|"+cls, fmt.Sprintf("%s: ciphertext of %d bytes for a %d-byte payload (SHA-1 prefix + payload + 0..15 bytes expected)", id, len(ct), n), rep)
						}
						got, found := mtp1.TempOpenAny(ct, newNonce, srvNonce)
						if !found || !bytes.Equal(got, payload) {
							run.Violation("temp|encrypt|peer-cannot-open|"+cls, id+": a conformant peer cannot recover the payload the client sealed", rep)
						}
						if !bytes.Equal(p2, payload) {
							run.Violation("temp|encrypt|caller-buffer-modified", id, rep)
						}
						frame, tail := spare(payload)
						var ct2 []byte
						if c.try("temp|encrypt|"+cls, id+" (spare capacity)", rep, func() { ct2 = ige.EncryptMessageWithTempKeys(frame[:n:len(frame)], nn, sn) }) {
							if got, found := mtp1.TempOpenAny(ct2, newNonce, srvNonce); !found || !bytes.Equal(got, payload) {
								run.Violation("temp|encrypt|peer-cannot-open|spare-capacity|"+cls, id+": payload given as a part of a larger buffer is not recovered by a conformant peer", rep)
							}
							if !bytes.Equal(frame[:n], payload) || !bytes.Equal(frame[n:], tail) {
								run.Violation("temp|encrypt|caller-buffer-modified|behind-the-payload", id+": bytes of the caller's buffer behind the payload were overwritten", rep)
							}
						}
						// and the client opens what it produced itself
						var back []byte
						if c.try("temp|decrypt-own|"+cls, id, rep, func() { back = ige.DecryptMessageWithTempKeys(ct, nn, sn) }) {
							if !bytes.Equal(back, payload) {
								run.Violation("temp|decrypt-own|wrong|"+cls, id+": client does not recover its own payload", rep)
							}
						}
					}
				}
				// producer: reference peer with the legal padding, two fillers
				padLen := (16 - res) % 16
				for _, fill := range []byte{0x00, 0xff} {
					id := fmt.Sprintf("temp peer lz=%d/%d len=%d pad=%d fill=%02x", lzNew, lzSrv, n, padLen, fill)
					rep := map[string]any{"part": "temp-peer", "lzNew": lzNew, "lzSrv": lzSrv, "len": n, "fill": fill}
					ct := mtp1.TempSeal(payload, pat(padLen, func(int) byte { return fill }), newNonce, srvNonce)
					var back []byte
					ok := c.try("temp|decrypt-peer|"+cls, id, rep, func() { back = ige.DecryptMessageWithTempKeys(ct, nn, sn) })
					run.Eval(id, ok)
					if ok && !bytes.Equal(back, payload) {
						run.Violation("temp|decrypt-peer|wrong|"+cls, id+": client does not recover the payload a conformant peer sealed", rep)
					}
				}
			}
		}
	}
	// (e) history: every ordered pair of (new_nonce, server_nonce) pairs from a 3x3 alphabet in which nonces
	// are shared between pairs, every combination of seal/open for the two steps: the second result must be
	// what the reference gives for the second pair alone (nothing remembered from the first may leak in)
	{
		mkNew := func(k int) []byte { return pat(32, func(i int) byte { return byte(0x21 + i + 50*k) }) }
		mkSrv := func(k int) []byte { return pat(16, func(i int) byte { return byte(0xd3 - i - 40*k) }) }
		payload := pat(28, func(i int) byte { return byte(i + 1) }) // 20+28 = 48: no padding needed
		type np struct{ a, b int }
		var pairs []np
		for a := 0; a < 3; a++ {
			for b := 0; b < 3; b++ {
				pairs = append(pairs, np{a, b})
			}
		}
		// pairs that differ as pairs of fixed-width values but agree once leading zero bytes are dropped and the
		// two values are put next to each other (anything that remembers a pair under such a name confuses them):
		// 47 bytes X cut as 00|X[:31] + X[31:] and as X[:32] + 00|X[32:]; and the small numbers (0,1) (1,0)
		// (1,256) (256,1) (0,0) (1,1)
		x47 := pat(47, func(i int) byte { return byte(0x31 + 3*i) })
		special := [][2][]byte{
			{append([]byte{0}, x47[:31]...), x47[31:]},
			{x47[:32], append([]byte{0}, x47[32:]...)},
			{num(32, 0), num(16, 1)}, {num(32, 1), num(16, 0)}, {num(32, 1), num(16, 256)}, {num(32, 256), num(16, 1)},
			{num(32, 0), num(16, 0)}, {num(32, 1), num(16, 1)},
		}
		for i := range special {
			pairs = append(pairs, np{100 + i, 100 + i})
		}
		step := func(p np, seal bool, id string, rep map[string]any, cls string) {
			var newNonce, srvNonce []byte
			if p.a >= 100 {
				newNonce, srvNonce = special[p.a-100][0], special[p.a-100][1]
			} else {
				newNonce, srvNonce = mkNew(p.a), mkSrv(p.b)
			}
			nn, sn := new(big.Int).SetBytes(newNonce), new(big.Int).SetBytes(srvNonce)
			if seal {
				var ct []byte
				if c.try("temp-history|encrypt|"+cls, id, rep, func() { ct = ige.EncryptMessageWithTempKeys(append([]byte{}, payload...), nn, sn) }) {
					if got, found := mtp1.TempOpenAny(ct, newNonce, srvNonce); !found || !bytes.Equal(got, payload) {
						run.Violation("temp-history|encrypt|peer-cannot-open|"+cls, id+": a conformant peer cannot recover the payload sealed in the second step", rep)
					}
				}
			} else {
				ct := mtp1.TempSeal(payload, nil, newNonce, srvNonce)
				var back []byte
				if c.try("temp-history|decrypt|"+cls, id, rep, func() { back = ige.DecryptMessageWithTempKeys(ct, nn, sn) }) && !bytes.Equal(back, payload) {
					run.Violation("temp-history|decrypt|wrong|"+cls, id+": client does not recover the payload a conformant peer sealed in the second step", rep)
				}
			}
		}
		for _, p1 := range pairs {
			for _, p2 := range pairs {
				for ops := 0; ops < 4; ops++ {
					cls := fmt.Sprintf("same-new=%v|same-srv=%v", p1.a == p2.a, p1.b == p2.b)
					id := fmt.Sprintf("temp history (%d,%d)->(%d,%d) ops=%d", p1.a, p1.b, p2.a, p2.b, ops)
					rep := map[string]any{"part": "temp-history", "p1": []int{p1.a, p1.b}, "p2": []int{p2.a, p2.b}, "ops": ops}
					step(p1, ops&1 != 0, id+" step1", rep, cls)
					step(p2, ops&2 != 0, id+" step2", rep, cls)
					run.Eval(id, true)
				}
			}
		}
	}
	run.Sample(map[string]any{"core": "key#0 iv#0 blocks=3 pattern=equalblocks", "wrapper": "payload len 12 (residue 0), new_nonce with 1 leading zero byte, peer padding 0"})
	run.Set("bounds", map[string]any{"blocks_max": N, "encrypt_len_max": M, "temp_payload_max": W})
	freepass.Run(run, run.ID, freepass.Rounds(run))
	run.Finish()
}

// spare returns a buffer that holds msg followed by 48 marked bytes, and a copy of those.
func spare(msg []byte) (frame, tail []byte) {
	tail = pat(48, func(i int) byte { return byte(0xa5 ^ i) })
	frame = append(append(make([]byte, 0, len(msg)+48), msg...), tail...)
	return frame, append([]byte{}, tail...)
}

// num is v as a big-endian number of n bytes.
func num(n int, v int) []byte {
	b := make([]byte, n)
	b[n-1], b[n-2] = byte(v), byte(v>>8)
	return b
}

func blk(i int) string {
	if i >= 2 {
		return "2+"
	}
	return fmt.Sprint(i)
}

func authKey() []byte { return pat(256, func(i int) byte { return byte(i*5 + 3) }) }
