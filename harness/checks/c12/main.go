// C12 — stored sessions are read back intact and let a restarted client resume.
package main

import (
	"bytes"
	"crypto/sha1"
	"fmt"
	"os"
	"os/signal"
	"path/filepath"
	"strings"
	"syscall"
	"time"

	"github.com/xelaj/errs"
	"github.com/xelaj/mtproto"
	"github.com/xelaj/mtproto/internal/session"
	"github.com/xelaj/mtproto/zverif/ref/mtp1"
	"github.com/xelaj/mtproto/zverif/ref/rpcsrv"
	"github.com/xelaj/mtproto/zverif/sess"
	"github.com/xelaj/mtproto/zverif/vr"
)

func pat(n int, f func(i int) byte) []byte {
	b := make([]byte, n)
	for i := range b {
		b[i] = f(i)
	}
	return b
}

func sameSession(a, b *session.Session) bool {
	return a != nil && b != nil && bytes.Equal(a.Key, b.Key) && bytes.Equal(a.Hash, b.Hash) && a.Salt == b.Salt && a.Hostname == b.Hostname
}

func hashS(s *session.Session) string {
	if s == nil {
		return "nil"
	}
	h := sha1.Sum([]byte(fmt.Sprintf("%x|%x|%d|%s", s.Key, s.Hash, s.Salt, s.Hostname)))
	return fmt.Sprintf("%x", h[:4])
}

var scratch string

func main() {
	run := vr.New("C12", "model_checking")
	defer run.Recover()
	var err error
	base := ""
	if fi, e := os.Stat("/dev/shm"); e == nil && fi.IsDir() {
		base = "/dev/shm" // memory-backed: thousands of small store/load histories
	}
	scratch, err = os.MkdirTemp(base, "verif-c12-")
	if err != nil {
		vr.HarnessError("scratch dir: %v", err)
	}
	defer os.RemoveAll(scratch)
	run.Rule("(a) full product of key x hash x salt x hostname alphabets stored and loaded by the same and by a fresh loader; (b) explicit-state search over all histories of {Store(s1), Store(s2), Load} through loader A, Store/Load through a second long-lived loader B, Load through a fresh loader, removal of the file, x {file mtime advances, stays equal} up to depth 4 (thorough 6), every history executed (the canonical key (file content, cached session, cache-valid bit) only counts distinct states), against the model 'last store wins'; (c) every prefix length of the stored file as a crash point; (d) path forms; (e) resume of the real client on a stored session against the reference server; non-trivial = distinct case in which a Load was compared with the model")
	run.Assume("the modification time the loader sees after a Store is owned by the harness (os.Chtimes), which reproduces 'two stores within one timestamp granule' deterministically",
		"no state merging is used for pruning: the history tree is executed completely to the stated depth")
	values(run)
	histories(run)
	crashPoints(run)
	paths(run)
	resume(run)
	finish(run)
}

func finish(run *vr.Run) {
	os.RemoveAll(scratch)
	run.Finish()
}

// ---- (a) ----------------------------------------------------------------------------------------

func values(run *vr.Run) {
	keys := [][]byte{pat(256, func(i int) byte { return byte(i) }), {}, {0}, pat(256, func(int) byte { return 0xff }), {0xff, 0xfe, 0x80, 0xc3, 0x28}}
	hashes := [][]byte{pat(8, func(i int) byte { return byte(0xa0 + i) }), {}, pat(36, func(i int) byte { return byte(i * 3) })}
	salts := []int64{0x0102030405060708, 0, 1, -1, 1<<63 - 1, -1 << 63}
	hosts := []string{"149.154.167.50:443", "", "хост:443", `a"b\c`, "</script>& ", "{}", "null", "line\nbreak", " "}
	dir := filepath.Join(scratch, "values")
	os.MkdirAll(dir, 0o755)
	n := 0
	for ki, k := range keys {
		for hi, h := range hashes {
			for si, s := range salts {
				for oi, o := range hosts {
					n++
					id := fmt.Sprintf("value k%d h%d s%d o%d", ki, hi, si, oi)
					rep := map[string]any{"part": "values", "key": ki, "hash": hi, "salt": s, "host": o}
					want := &session.Session{Key: k, Hash: h, Salt: s, Hostname: o}
					path := filepath.Join(dir, fmt.Sprintf("s%d.json", n%7))
					l := session.NewFromFile(path)
					var got1, got2 *session.Session
					var e0, e1, e2 error
					p, pm, fr := vr.Try(func() {
						e0 = l.Store(want)
						got1, e1 = l.Load()
						got2, e2 = session.NewFromFile(path).Load()
					})
					run.Eval(id, true)
					cls := fmt.Sprintf("key#%d|hash#%d|salt#%d|host#%d", ki, hi, si, oi)
					switch {
					case p:
						run.Violation("values|panic|"+vr.MsgClass(pm)+"|"+fr, id+": "+pm, rep)
					case e0 != nil || e1 != nil || e2 != nil:
						run.Violation("values|error|"+dimClass(ki, hi, si, oi), fmt.Sprintf("%s (%s): store=%v load=%v fresh=%v", id, cls, e0, e1, e2), rep)
					case !sameSession(got1, want):
						run.Violation("values|same-loader-differs|"+dimClass(ki, hi, si, oi), fmt.Sprintf("%s: loaded %+v, stored %+v", id, got1, want), rep)
					case !sameSession(got2, want):
						run.Violation("values|fresh-loader-differs|"+dimClass(ki, hi, si, oi), fmt.Sprintf("%s: loaded %+v, stored %+v", id, got2, want), rep)
					}
				}
			}
		}
	}
}

// dimClass names which dimensions are off their default (first) value.
func dimClass(ix ...int) string {
	names := []string{"key", "hash", "salt", "host"}
	var s []string
	for i, v := range ix {
		if v != 0 {
			s = append(s, fmt.Sprintf("%s#%d", names[i], v))
		}
	}
	return strings.Join(s, ",")
}

// ---- (b) ----------------------------------------------------------------------------------------

type op struct {
	kind  string // store1 store2 loadSame loadFresh
	equal bool   // for stores: mtime stays equal to the previous one
}

func (o op) String() string {
	if strings.HasPrefix(o.kind, "store") {
		if o.equal {
			return o.kind + "(mtime=same)"
		}
		return o.kind + "(mtime+1s)"
	}
	return o.kind
}

var s1 = &session.Session{Key: pat(256, func(i int) byte { return 1 }), Hash: pat(8, func(int) byte { return 1 }), Salt: 111, Hostname: "one:443"}
var s2 = &session.Session{Key: pat(256, func(i int) byte { return 2 }), Hash: pat(8, func(int) byte { return 2 }), Salt: 222, Hostname: "two:443"}

type hstate struct {
	key      string
	bad      string
	compared int
}

// replay builds a fresh loader and file, applies the history, and checks every Load against the model.
func replay(dir string, hist []op) hstate {
	path := filepath.Join(dir, "session.json")
	os.Remove(path)
	l := session.NewFromFile(path)
	lB := session.NewFromFile(path)
	var model *session.Session
	mtime := time.Unix(1600000000, 0)
	var st hstate
	for i, o := range hist {
		switch o.kind {
		case "remove":
			os.Remove(path)
			model = nil
		case "store1", "store2", "storeB1", "storeB2":
			s := s1
			if strings.HasSuffix(o.kind, "2") {
				s = s2
			}
			target := l
			if strings.HasPrefix(o.kind, "storeB") {
				target = lB
			}
			if err := target.Store(s); err != nil {
				st.bad = fmt.Sprintf("step %d %s: %v", i, o, err)
				return st
			}
			if !o.equal {
				mtime = mtime.Add(time.Second)
			}
			os.Chtimes(path, mtime, mtime)
			model = s
		case "loadSame", "loadFresh", "loadB":
			ld := l
			if o.kind == "loadFresh" {
				ld = session.NewFromFile(path)
			} else if o.kind == "loadB" {
				ld = lB
			}
			got, err := ld.Load()
			st.compared++
			switch {
			case model == nil:
				if err == nil || !errs.IsNotFound(err) {
					st.bad = fmt.Sprintf("step %d %s: nothing stored yet, want a not-found error, got (%s, %v)", i, o, hashS(got), err)
					return st
				}
			case err != nil:
				st.bad = fmt.Sprintf("step %d %s: %v", i, o, err)
				return st
			case !sameSession(got, model):
				st.bad = fmt.Sprintf("step %d %s: loaded session with salt %d, the last stored one has salt %d", i, o, got.Salt, model.Salt)
				return st
			}
		}
	}
	file, _ := os.ReadFile(path)
	fh := sha1.Sum(file)
	cached, last, _ := session.VerifLoaderState(l)
	valid := false
	if fi, err := os.Stat(path); err == nil {
		valid = fi.ModTime().Equal(last)
	}
	st.key = fmt.Sprintf("%x|%s|%v", fh[:6], hashS(cached), valid)
	return st
}

func histories(run *vr.Run) {
	depth := 4
	if run.Thorough() {
		depth = 6
	}
	dir := filepath.Join(scratch, "hist")
	os.MkdirAll(dir, 0o755)
	// two long-lived loaders A ("same") and B on one path, fresh loaders, and the file disappearing
	alphabet := []op{{"store1", false}, {"store1", true}, {"store2", false}, {"store2", true}, {"loadSame", false}, {"loadFresh", false},
		{"storeB1", false}, {"storeB2", true}, {"loadB", false}, {"remove", false}}
	// the whole tree is executed (no pruning); the canonical key only counts distinct states
	seen := map[string]bool{replay(dir, nil).key: true}
	states, transitions, maxDepth := 1, 0, 0
	var walk func(hist []op)
	walk = func(hist []op) {
		if len(hist) >= depth {
			return
		}
		for _, o := range alphabet {
			next := append(append([]op{}, hist...), o)
			st := replay(dir, next)
			transitions++
			run.Eval("hist "+fmt.Sprint(next), st.compared > 0)
			if st.bad != "" {
				names := make([]string, len(next))
				for i, x := range next {
					names[i] = x.String()
				}
				run.Violation("history|"+histClass(next), fmt.Sprintf("history %v: %s", names, st.bad), map[string]any{"part": "history", "ops": names})
				continue // do not extend a violating history
			}
			if !seen[st.key] {
				seen[st.key] = true
				states++
				if len(next) > maxDepth {
					maxDepth = len(next)
				}
			}
			walk(next)
		}
	}
	walk(nil)
	run.Set("states", states)
	run.Set("transitions", transitions)
	run.Set("traces_validated_against_impl", transitions)
	run.Set("history_depth", depth)
	run.Set("max_depth_with_new_state", maxDepth)
	run.Sample(map[string]any{"history": []string{"store1(mtime+1s)", "loadSame", "store2(mtime=same)", "loadSame"}, "model": "last store wins: the second load returns s2"})
}

// histClass: the shape of a violating history with session identities abstracted away.
func histClass(h []op) string {
	var s []string
	first := ""
	for _, o := range h {
		k := o.kind
		if strings.HasPrefix(k, "store") {
			if first == "" {
				first = k
			}
			if k == first {
				k = "storeA"
			} else {
				k = "storeB"
			}
			if o.equal {
				k += "="
			}
		}
		s = append(s, k)
	}
	return strings.Join(s, ",")
}

// ---- (c) ----------------------------------------------------------------------------------------

// writeCrashes cuts the real Store short at every byte: the file-size limit of the process (RLIMIT_FSIZE) is
// lowered to k around the call, so the operating system itself stops the write after k bytes, as a full disk or
// a crash would. What a later Load sees depends on how Store writes (truncate first, write in place, write a
// temporary file and rename); whichever it is, Load must report an error or one of the two sessions involved -
// the one stored before or the one being stored - never a mixture of them.
func writeCrashes(run *vr.Run, dir string, sessions []*session.Session) {
	var lim syscall.Rlimit
	if err := syscall.Getrlimit(syscall.RLIMIT_FSIZE, &lim); err != nil {
		run.Set("write_crash_points", "not run: "+err.Error())
		return
	}
	signal.Ignore(syscall.SIGXFSZ)
	defer signal.Reset(syscall.SIGXFSZ)
	// pairs old -> new: same encoded length (only the salt differs: the common case), shorter, longer, no old file
	saltOnly := *s1
	saltOnly.Salt = s1.Salt ^ 0x00ff00ff00ff00ff
	type pair struct {
		name     string
		old, new *session.Session
	}
	pairs := []pair{{"no-old-file", nil, s1}, {"same-length-salt-differs", s1, &saltOnly}, {"same-length-salt-differs-back", &saltOnly, s1},
		{"old-longer", sessions[3], sessions[4]}, {"old-shorter", sessions[4], sessions[3]}, {"other-session", s1, s2}}
	n := 0
	for _, pr := range pairs {
		path := filepath.Join(dir, "w-"+pr.name+".json")
		probe := filepath.Join(dir, "w-probe.json")
		session.NewFromFile(probe).Store(pr.new)
		full, _ := os.ReadFile(probe)
		for k := 0; k < len(full); k++ {
			os.Remove(path)
			if pr.old != nil {
				if err := session.NewFromFile(path).Store(pr.old); err != nil {
					run.Violation("write-crash|store-error", err.Error(), nil)
					return
				}
			}
			id := fmt.Sprintf("write-crash %s cut=%d/%d", pr.name, k, len(full))
			rep := map[string]any{"part": "write-crash", "pair": pr.name, "cut": k}
			low := syscall.Rlimit{Cur: uint64(k), Max: lim.Max}
			if err := syscall.Setrlimit(syscall.RLIMIT_FSIZE, &low); err != nil {
				run.Set("write_crash_points", "not run: "+err.Error())
				return
			}
			var serr error
			p, pm, fr := vr.Try(func() { serr = session.NewFromFile(path).Store(pr.new) })
			syscall.Setrlimit(syscall.RLIMIT_FSIZE, &lim)
			_ = serr // Store may or may not notice
			n++
			run.Eval(id, true)
			if p {
				run.Violation("write-crash|store-panics|"+vr.MsgClass(pm)+"|"+fr, id+": "+pm, rep)
				continue
			}
			var got *session.Session
			var err error
			if p, pm, fr := vr.Try(func() { got, err = session.NewFromFile(path).Load() }); p {
				run.Violation("write-crash|load-panics|"+vr.MsgClass(pm)+"|"+fr, id+": "+pm, rep)
				continue
			}
			if err == nil && !sameSession(got, pr.new) && (pr.old == nil || !sameSession(got, pr.old)) {
				run.Violation("write-crash|different-session|"+pr.name, fmt.Sprintf("%s: after a Store that the system cut short, Load returns without error a session that was never stored (salt %#x; before: %v, being stored: %#x)", id, uint64(got.Salt), saltOf(pr.old), uint64(pr.new.Salt)), rep)
			}
		}
	}
	run.Set("write_crash_points", n)
}

func saltOf(s *session.Session) string {
	if s == nil {
		return "no file"
	}
	return fmt.Sprintf("%#x", uint64(s.Salt))
}

func crashPoints(run *vr.Run) {
	dir := filepath.Join(scratch, "crash")
	os.MkdirAll(dir, 0o755)
	sessions := []*session.Session{s1, s2,
		{Key: []byte{}, Hash: []byte{}, Salt: 0, Hostname: ""},
		{Key: pat(256, func(i int) byte { return byte(i) }), Hash: pat(8, func(i int) byte { return byte(i) }), Salt: -1, Hostname: `q"uote\`},
		{Key: []byte{1}, Hash: []byte{2}, Salt: 1 << 62, Hostname: "{}"},
		{Key: pat(32, func(int) byte { return 0 }), Hash: pat(8, func(int) byte { return 0 }), Salt: 5, Hostname: "хост"}}
	for si, s := range sessions {
		path := filepath.Join(dir, fmt.Sprintf("c%d.json", si))
		if err := session.NewFromFile(path).Store(s); err != nil {
			run.Violation("crash|store-error", err.Error(), nil)
			continue
		}
		full, _ := os.ReadFile(path)
		for n := 0; n < len(full); n++ {
			id := fmt.Sprintf("crash s%d prefix=%d/%d", si, n, len(full))
			os.WriteFile(path, full[:n], 0o600)
			var got *session.Session
			var err error
			p, pm, fr := vr.Try(func() { got, err = session.NewFromFile(path).Load() })
			run.Eval(id, true)
			rep := map[string]any{"part": "crash", "session": si, "prefix": n}
			where := "mid"
			if n == 0 {
				where = "empty-file"
			} else if n == len(full)-1 {
				where = "last-byte-missing"
			}
			switch {
			case p:
				run.Violation("crash|panic|"+vr.MsgClass(pm)+"|"+fr, id+": "+pm, rep)
			case err == nil && !sameSession(got, s):
				run.Violation("crash|different-session|"+where, fmt.Sprintf("%s: a torn file is read as a different session (salt %d)", id, got.Salt), rep)
			case err == nil:
				run.Violation("crash|torn-file-accepted|"+where, id+": a file cut short is read as the stored session without error", rep)
			}
		}
	}
	writeCrashes(run, dir, sessions)
	// a missing file is 'not found'
	_, err := session.NewFromFile(filepath.Join(dir, "does-not-exist.json")).Load()
	run.Eval("missing file", true)
	if err == nil || !errs.IsNotFound(err) {
		run.Violation("missing-file|not-reported-as-not-found", fmt.Sprintf("Load of a missing file: %v", err), nil)
	}
}

// ---- (d) ----------------------------------------------------------------------------------------

func paths(run *vr.Run) {
	dir := filepath.Join(scratch, "paths")
	os.MkdirAll(filepath.Join(dir, "sub"), 0o755)
	os.WriteFile(filepath.Join(dir, "afile"), []byte("x"), 0o600)
	old, _ := os.Getwd()
	os.Chdir(dir)
	defer os.Chdir(old)
	for _, tc := range []struct {
		name, path string
		ok         bool
	}{
		{"absolute", filepath.Join(dir, "sub", "abs.json"), true},
		{"dot-relative", "./sub/rel.json", true},
		{"relative", "sub/rel2.json", true},
		{"bare-filename", "bare.json", true},
		{"dot-bare", "./bare2.json", true},
		{"missing-directory", "nodir/x.json", false},
		{"directory-is-a-file", "afile/x.json", false},
	} {
		id := "path " + tc.name
		var e0, e1 error
		var got *session.Session
		p, pm, fr := vr.Try(func() {
			l := session.NewFromFile(tc.path)
			e0 = l.Store(s1)
			if e0 == nil {
				got, e1 = session.NewFromFile(tc.path).Load()
			}
		})
		run.Eval(id, true)
		rep := map[string]any{"part": "paths", "path": tc.path}
		switch {
		case p:
			run.Violation("paths|panic|"+tc.name+"|"+vr.MsgClass(pm)+"|"+fr, id+": "+pm, rep)
		case tc.ok && (e0 != nil || e1 != nil || !sameSession(got, s1)):
			run.Violation("paths|refused|"+tc.name, fmt.Sprintf("%s (%q, directory exists): store=%v load=%v", id, tc.path, e0, e1), rep)
		case !tc.ok && e0 == nil:
			// the statement speaks of paths whose directory exists; what happens otherwise is only required not
			// to panic
			run.Count("diagnostic_store_into_missing_directory_succeeded", 1)
		}
	}
}

// ---- (e) ----------------------------------------------------------------------------------------

func resume(run *vr.Run) {
	dir := filepath.Join(scratch, "resume")
	os.MkdirAll(dir, 0o755)
	path := filepath.Join(dir, "session.json")
	key := sess.TestKey()
	const storedAddr = "10.9.9.9:443"
	if err := session.NewFromFile(path).Store(&session.Session{Key: key, Hash: mtp1.KeyID(key), Salt: 4242, Hostname: storedAddr}); err != nil {
		run.Violation("resume|store", err.Error(), nil)
		return
	}
	net := sess.NewNet(nil)
	srv := rpcsrv.New(key, 4242)
	net.Servers[storedAddr] = srv
	net.Install()
	defer net.Uninstall()
	start := func(tag int32) (*mtproto.MTProto, any, error, bool) {
		m, err := mtproto.NewMTProto(mtproto.Config{AuthKeyFile: path, ServerHost: "10.1.1.1:443"})
		if err != nil {
			return nil, nil, err, true
		}
		if err := m.CreateConnection(); err != nil {
			return nil, nil, err, true
		}
		type res struct {
			v   any
			err error
		}
		ch := make(chan res, 1)
		go func() {
			v, err := sess.DoCall(m, sess.Call{Tag: tag, Kind: rpcsrv.KObj})
			ch <- res{v, err}
		}()
		deadline := time.Now().Add(60 * time.Second)
		for {
			select {
			case r := <-ch:
				return m, r.v, r.err, true
			case <-time.After(5 * time.Millisecond):
				if len(net.Conns) > 0 && net.Conns[len(net.Conns)-1].Idle() && len(srv.Queue) == 0 && len(srv.Frames) > 0 {
					time.Sleep(100 * time.Millisecond)
					select {
					case r := <-ch:
						return m, r.v, r.err, true
					default:
					}
					if net.Conns[len(net.Conns)-1].Idle() {
						return m, nil, nil, false
					}
				}
				if time.Now().After(deadline) {
					vr.HarnessError("resume: no progress in 60s")
				}
			}
		}
	}
	judge := func(step string, m *mtproto.MTProto, v any, err error, returned bool, tag int32, wantSalt int64, framesBefore int) {
		id := "resume " + step
		run.Eval(id, true)
		rep := map[string]any{"part": "resume", "step": step}
		if err != nil {
			run.Violation("resume|"+step+"|error", id+": "+err.Error(), rep)
			return
		}
		if !returned {
			run.Violation("resume|"+step+"|request-never-answered", id+": the first request after resuming is never answered", rep)
			return
		}
		if r, ok := v.(*sess.VRes); !ok || r.Tag != tag {
			run.Violation("resume|"+step+"|wrong-answer", fmt.Sprintf("%s: got %v", id, v), rep)
		}
		if len(net.Dials) == 0 || net.Dials[len(net.Dials)-1] != storedAddr {
			run.Violation("resume|"+step+"|address", fmt.Sprintf("%s: dialled %v, the stored session names %s", id, net.Dials, storedAddr), rep)
		}
		for _, f := range srv.Frames[framesBefore:] {
			if f.Plain {
				run.Violation("resume|"+step+"|plain-text-frame", id+": the client started a key exchange although the store holds a session", rep)
				return
			}
		}
		if fs := srv.Frames[framesBefore:]; len(fs) > 0 && fs[0].Opened && fs[0].Msg.Salt != wantSalt {
			run.Violation("resume|"+step+"|salt", fmt.Sprintf("%s: first frame carries salt %d, the store holds %d", id, fs[0].Msg.Salt, wantSalt), rep)
		}
		if len(srv.Problems) > 0 {
			run.Violation("resume|"+step+"|stream|"+vr.MsgClass(srv.Problems[0]), id+": "+srv.Problems[0], rep)
		}
	}
	m1, v, err, ret := start(1)
	judge("first-start", m1, v, err, ret, 1, 4242, 0)
	if m1 == nil {
		return
	}
	// the server rotates its salt; the running client learns it; then the process restarts
	srv.Salt = 9191
	type res struct {
		v   any
		err error
	}
	ch := make(chan res, 1)
	go func() {
		v, err := sess.DoCall(m1, sess.Call{Tag: 2, Kind: rpcsrv.KObj})
		ch <- res{v, err}
	}()
	select {
	case r := <-ch:
		if rr, ok := r.v.(*sess.VRes); !ok || rr.Tag != 2 || r.err != nil {
			run.Violation("resume|rotation|wrong-answer", fmt.Sprintf("request across a rotation: %v %v", r.v, r.err), nil)
		}
	case <-time.After(30 * time.Second):
		run.Violation("resume|rotation|request-never-answered", "request across a salt rotation never completes", nil)
		return
	}
	m1.Disconnect()
	before := len(srv.Frames)
	srv.Problems = nil
	m2, v, err, ret := start(3)
	judge("restart-after-rotation", m2, v, err, ret, 3, 9191, before)
	if m2 != nil {
		m2.Disconnect()
	}
}
