// C03 — encrypted envelope and key schedule against the reference MTProto 1.0 peer (R2).
package main

import (
	"bytes"
	"encoding/binary"
	"fmt"

	"github.com/xelaj/mtproto/internal/mode"
	"github.com/xelaj/mtproto/internal/mtproto/messages"
	"github.com/xelaj/mtproto/internal/transport"
	"github.com/xelaj/mtproto/zverif/enum"
	"github.com/xelaj/mtproto/zverif/freepass"
	"github.com/xelaj/mtproto/zverif/ref/mtp1"
	"github.com/xelaj/mtproto/zverif/sched"
	"github.com/xelaj/mtproto/zverif/vr"
)

type informator struct {
	key     []byte
	salt    int64
	session int64
	seq     int32
}

func (i *informator) GetSessionID() int64  { return i.session }
func (i *informator) GetSeqNo() int32      { return i.seq }
func (i *informator) GetServerSalt() int64 { return i.salt }
func (i *informator) GetAuthKey() []byte   { return i.key }

func pat(n int, f func(i int) byte) []byte {
	b := make([]byte, n)
	for i := range b {
		b[i] = f(i)
	}
	return b
}

var (
	authKeys = [][]byte{
		pat(256, func(i int) byte { return byte(i) }),
		pat(256, func(i int) byte {
			if i == 255 {
				return 1
			}
			return 0
		}),
		pat(256, func(i int) byte {
			if i < 8 {
				return 0
			}
			return byte(i * 3)
		}),
		pat(256, func(i int) byte { return 0xff }),
	}
	longs    = []int64{0x0102030405060708, 0, 1, -1, 1<<63 - 1, -1 << 63}
	t0       = int64(1600000000)
	clientID = []int64{t0<<32 | 4, t0 << 32, t0<<32 | 0xfffffffc, (t0 + 1) << 32}
	serverID = []int64{t0<<32 | 1, t0<<32 | 3, t0<<32 | 0xfffffffd, (t0+1)<<32 | 0xffffffff}
	seqs     = []int32{0, 1, 2, 1<<31 - 2, 6}
)

type memConn struct {
	r *bytes.Reader
	w bytes.Buffer
}

func (m *memConn) Read(p []byte) (int, error) {
	n := 0
	for n < len(p) {
		k, err := m.r.Read(p[n:])
		n += k
		if err != nil {
			return n, err
		}
	}
	return n, nil
}
func (m *memConn) Write(p []byte) (int, error) { return m.w.Write(p) }
func (m *memConn) Close() error                { return nil }

func main() {
	run := vr.New("C03", "exploration")
	defer run.Recover()
	freepass.MaybeReplay(run)
	run.Rule("dimensions auth key(4) x salt(6) x session id(6) x msg_id(4) x seq_no(5) x ack(2) x cached key-id field(3: right, empty, stale) at <=2 deviations from the first value of each, crossed fully with every body length 0..N (so every padding amount 0..15); both directions; the same cases through transport.WriteMsg/ReadMsg on an injected connection for a sub-range; unencrypted messages for every length. non-trivial = distinct case where the repository function returned and the oracle compared fields")
	run.Assume("reference R2 (harness/ref/mtp1) implements MTProto 1.0 (description_v1)", "transport level uses the real transport and intermediate mode over an in-memory connection (overlay-added constructor)")
	N := 80
	extra := []int{}
	if run.Thorough() {
		N = 1040
		for n := 65520; n <= 65536; n++ {
			extra = append(extra, n)
		}
	}
	lengths := []int{}
	for n := 0; n <= N; n++ {
		lengths = append(lengths, n)
	}
	lengths = append(lengths, extra...)
	sizes := []int{len(authKeys), len(longs), len(longs), 4, len(seqs), 2, 3}
	enum.All(sizes, 2, func(ix []int) {
		key, salt, sess, seq, ack := authKeys[ix[0]], longs[ix[1]], longs[ix[2]], seqs[ix[4]], ix[5] == 1
		inf := &informator{key: key, salt: salt, session: sess, seq: seq}
		dev := fmt.Sprint(ix)
		for _, n := range lengths {
			body := pat(n, func(i int) byte { return byte(i*11 + 5) })
			// ---- client -> server
			{
				id := fmt.Sprintf("c2s %s len=%d", dev, n)
				rep := map[string]any{"dir": "c2s", "ix": append([]int{}, ix...), "len": n}
				msgID := clientID[ix[3]]
				var pkt []byte
				var err error
				p, pm, fr := vr.Try(func() {
					// the AuthKeyHash field of the message is a cache; whatever it holds (right id, nothing, a
					// stale id from a session record) the id on the wire must be derived from the key in use
					hashField := [][]byte{mtp1.KeyID(key), nil, {1, 2, 3, 4, 5, 6, 7, 8}}[ix[6]]
					pkt, err = (&messages.Encrypted{Msg: append([]byte{}, body...), MsgID: msgID, AuthKeyHash: hashField}).Serialize(inf, ack)
				})
				run.Eval(id, !p && err == nil)
				switch {
				case p:
					run.Violation("c2s|panic|"+vr.MsgClass(pm)+"|"+fr, id+": panic "+pm, rep)
				case err != nil:
					run.Violation("c2s|error|"+vr.MsgClass(err.Error()), id+": "+err.Error(), rep)
				default:
					got, pad, oerr := mtp1.Open(key, pkt, 0)
					wantSeq := seq
					if ack {
						wantSeq |= 1
					}
					want := mtp1.Msg{Salt: salt, Session: sess, MsgID: msgID, SeqNo: wantSeq, Body: body}
					if oerr != nil {
						run.Violation(fmt.Sprintf("c2s|server-cannot-open|%s|residue=%d", vr.MsgClass(oerr.Error()), n%16), fmt.Sprintf("%s: reference server rejects the packet: %v", id, oerr), rep)
					} else if !got.Equal(want) {
						run.Violation("c2s|fields-differ|"+diff(got, want), fmt.Sprintf("%s: server recovered %v, client meant %v", id, got, want), rep)
					} else if pad > 15 {
						run.Violation("c2s|padding>15", id, rep)
					}
				}
			}
			// ---- server -> client
			{
				id := fmt.Sprintf("s2c %s len=%d", dev, n)
				rep := map[string]any{"dir": "s2c", "ix": append([]int{}, ix...), "len": n}
				m := mtp1.Msg{Salt: salt, Session: sess, MsgID: serverID[ix[3]], SeqNo: seq | int32(ix[5]), Body: body}
				fill := byte(0)
				if n%2 == 1 {
					fill = 0xff
				}
				pkt := mtp1.Seal(key, m, pat(mtp1.PadLen(n), func(int) byte { return fill }), 8)
				var got *messages.Encrypted
				var err error
				p, pm, fr := vr.Try(func() { got, err = messages.DeserializeEncrypted(append([]byte{}, pkt...), key) })
				run.Eval(id, !p && err == nil)
				switch {
				case p:
					run.Violation("s2c|panic|"+vr.MsgClass(pm)+"|"+fr, id+": panic "+pm, rep)
				case err != nil:
					run.Violation(fmt.Sprintf("s2c|error|%s|pad=%d", vr.MsgClass(err.Error()), mtp1.PadLen(n)), id+": "+err.Error(), rep)
				case got == nil:
					run.Violation("s2c|nothing-returned", id+": neither a message nor an error", rep)
				default:
					g := mtp1.Msg{Salt: got.Salt, Session: got.SessionID, MsgID: got.MsgID, SeqNo: got.SeqNo, Body: got.Msg}
					if !g.Equal(m) {
						run.Violation("s2c|fields-differ|"+diff(g, m), fmt.Sprintf("%s: client opened %v, server sealed %v", id, g, m), rep)
					}
					if got.GetMsgID() != int(m.MsgID) || got.GetSeqNo() != int(m.SeqNo) || !bytes.Equal(got.GetMsg(), m.Body) {
						run.Violation("s2c|accessors-differ", id, rep)
					}
				}
			}
		}
	})

	// ---- transport level (real transport + intermediate mode over an injected connection)
	TN := 40
	if run.Thorough() {
		TN = 300
	}
	for ki, key := range authKeys {
		for n := 0; n <= TN; n += 1 {
			if n%4 != 0 && !run.Thorough() {
				continue
			}
			inf := &informator{key: key, salt: longs[0], session: longs[4], seq: 6}
			body := pat(n, func(i int) byte { return byte(i + 9) })
			id := fmt.Sprintf("transport key%d len=%d", ki, n)
			rep := map[string]any{"dir": "transport", "key": ki, "len": n}
			m := mtp1.Msg{Salt: 77, Session: longs[4], MsgID: serverID[0], SeqNo: 5, Body: body}
			pkt := mtp1.Seal(key, m, make([]byte, mtp1.PadLen(n)), 8)
			frame := make([]byte, 4)
			binary.LittleEndian.PutUint32(frame, uint32(len(pkt)))
			conn := &memConn{r: bytes.NewReader(append(frame, pkt...))}
			var rd messages.Common
			var err, werr error
			p, pm, fr := vr.Try(func() {
				var t transport.Transport
				t, err = transport.VerifNewTransport(inf, conn, mode.Intermediate)
				if err != nil {
					return
				}
				werr = t.WriteMsg(&messages.Encrypted{Msg: body, MsgID: clientID[0], AuthKeyHash: mtp1.KeyID(key)}, true)
				rd, err = t.ReadMsg()
			})
			run.Eval(id, !p && err == nil)
			if p {
				run.Violation("transport|panic|"+vr.MsgClass(pm)+"|"+fr, id+": panic "+pm, rep)
				continue
			}
			if err != nil || werr != nil {
				run.Violation("transport|error", fmt.Sprintf("%s: read err=%v write err=%v", id, err, werr), rep)
				continue
			}
			if rd.GetMsgID() != int(m.MsgID) || rd.GetSeqNo() != 5 || !bytes.Equal(rd.GetMsg(), body) {
				run.Violation("transport|read-differs", id, rep)
			}
			w := conn.w.Bytes()
			if len(w) < 8 || !bytes.Equal(w[:4], []byte{0xee, 0xee, 0xee, 0xee}) || int(binary.LittleEndian.Uint32(w[4:8])) != len(w)-8 {
				run.Violation("transport|write-framing", id, rep)
				continue
			}
			got, _, oerr := mtp1.Open(key, w[8:], 0)
			want := mtp1.Msg{Salt: longs[0], Session: longs[4], MsgID: clientID[0], SeqNo: 7, Body: body}
			if oerr != nil || !got.Equal(want) {
				run.Violation("transport|server-view-differs", fmt.Sprintf("%s: %v %v", id, oerr, got), rep)
			}
		}
	}

	// ---- what a damaged frame leaves behind: one frame that is no packet (too short for a key id, for a plain-text
	// header, for a message key, one or two cipher blocks of garbage under the right / another / the zero key id),
	// then a conformant packet - on one transport object, and through the two deserialisers directly. What happens
	// to the damaged frame itself is C04's subject; the conformant packet behind it must open to the sealed fields.
	{
		nd := 0
		for ki, key := range authKeys {
			var damaged [][]byte
			for _, kid := range [][]byte{mtp1.KeyID(key), {1, 2, 3, 4, 5, 6, 7, 8}, make([]byte, 8)} {
				for _, n := range []int{0, 1, 5, 7, 8, 12, 16, 19, 20, 23, 24, 28, 39, 40, 41, 56, 72} {
					d := pat(n, func(i int) byte { return byte(0x51 + 11*i) })
					copy(d, kid)
					damaged = append(damaged, d)
				}
			}
			body := pat(36, func(i int) byte { return byte(i + 3) })
			m := mtp1.Msg{Salt: 77, Session: longs[4], MsgID: serverID[0], SeqNo: 5, Body: body}
			pkt := mtp1.Seal(key, m, make([]byte, mtp1.PadLen(len(body))), 8)
			fr4 := func(b []byte) []byte { return append(binary.LittleEndian.AppendUint32(nil, uint32(len(b))), b...) }
			for di, d := range damaged {
				nd++
				id := fmt.Sprintf("after-a-damaged-frame key%d frame#%d(len=%d,keyid=%x)", ki, di, len(d), d[:min(8, len(d))])
				rep := map[string]any{"dir": "after-a-damaged-frame", "key": ki, "frame_hex": fmt.Sprintf("%x", d)}
				// through the transport
				inf := &informator{key: key, salt: longs[0], session: longs[4], seq: 6}
				conn := &memConn{r: bytes.NewReader(append(fr4(d), fr4(pkt)...))}
				var rd messages.Common
				var err error
				p, pm, fr := vr.Try(func() {
					t, terr := transport.VerifNewTransport(inf, conn, mode.Intermediate)
					if terr != nil {
						err = terr
						return
					}
					vr.Try(func() { t.ReadMsg() }) // the damaged frame: refused one way or another
					rd, err = t.ReadMsg()
				})
				run.Eval(id+" transport", true)
				switch {
				case p:
					run.Violation("after-a-damaged-frame|transport|panic|"+vr.MsgClass(pm)+"|"+fr, id+": panic "+pm, rep)
				case err != nil:
					run.Violation("after-a-damaged-frame|transport|conformant-packet-refused|"+vr.MsgClass(err.Error()), fmt.Sprintf("%s: the conformant packet behind the damaged frame is refused: %v", id, err), rep)
				case rd.GetMsgID() != int(m.MsgID) || rd.GetSeqNo() != 5 || !bytes.Equal(rd.GetMsg(), body):
					run.Violation("after-a-damaged-frame|transport|read-differs", id, rep)
				}
				// through the deserialisers
				vr.Try(func() { messages.DeserializeEncrypted(append([]byte{}, d...), key) })
				vr.Try(func() { messages.DeserializeUnencrypted(append([]byte{}, d...)) })
				var got *messages.Encrypted
				p, pm, fr = vr.Try(func() { got, err = messages.DeserializeEncrypted(append([]byte{}, pkt...), key) })
				run.Eval(id+" deserialise", true)
				switch {
				case p:
					run.Violation("after-a-damaged-frame|deserialise|panic|"+vr.MsgClass(pm)+"|"+fr, id+": panic "+pm, rep)
				case err != nil || got == nil:
					run.Violation("after-a-damaged-frame|deserialise|conformant-packet-refused", fmt.Sprintf("%s: the conformant packet decoded after the damaged frame is refused: %v", id, err), rep)
				default:
					if g := (mtp1.Msg{Salt: got.Salt, Session: got.SessionID, MsgID: got.MsgID, SeqNo: got.SeqNo, Body: got.Msg}); !g.Equal(m) {
						run.Violation("after-a-damaged-frame|deserialise|fields-differ|"+diff(g, m), id, rep)
					}
				}
			}
		}
		run.Set("damaged_frame_then_conformant_packet_histories", nd)
	}

	// ---- history on ONE transport object: the session parameters change between writes (salt rotation, new
	// session id, seq_no advancing, even a new key); every packet must carry the values current at its write
	for _, hist := range [][]informator{
		{{key: authKeys[0], salt: 0x1111, session: 5, seq: 0}, {key: authKeys[0], salt: 0x2222, session: 5, seq: 2}, {key: authKeys[0], salt: 0x2222, session: 5, seq: 4}},
		{{key: authKeys[0], salt: 1, session: 5, seq: 0}, {key: authKeys[0], salt: 1, session: 6, seq: 0}, {key: authKeys[0], salt: 2, session: 6, seq: 2}},
		{{key: authKeys[0], salt: 1, session: 5, seq: 0}, {key: authKeys[3], salt: 1, session: 5, seq: 2}, {key: authKeys[0], salt: 3, session: 5, seq: 4}, {key: authKeys[3], salt: 4, session: 7, seq: 6}},
	} {
		id := fmt.Sprintf("transport-history %d steps", len(hist))
		conn := &memConn{r: bytes.NewReader(nil)}
		inf := &informator{}
		var t transport.Transport
		var err error
		p, pm, fr := vr.Try(func() { t, err = transport.VerifNewTransport(inf, conn, mode.Intermediate) })
		if p || err != nil {
			run.Violation("transport-history|setup|"+vr.MsgClass(pm)+fr, id, nil)
			continue
		}
		for step, cur := range hist {
			*inf = cur
			conn.w.Reset()
			body := pat(12+4*step, func(i int) byte { return byte(i + step) })
			sid := fmt.Sprintf("%s step %d", id, step)
			p, pm, fr = vr.Try(func() {
				err = t.WriteMsg(&messages.Encrypted{Msg: body, MsgID: clientID[0] + int64(4*step), AuthKeyHash: mtp1.KeyID(hist[0].key)}, true)
			})
			run.Eval(sid, !p && err == nil)
			if p || err != nil {
				run.Violation("transport-history|write|"+vr.MsgClass(pm+fmt.Sprint(err))+"|"+fr, sid, nil)
				break
			}
			w := conn.w.Bytes()
			off := 0 // the announcement went out when the transport was created and was cleared by Reset
			if len(w) < off+4 {
				run.Violation("transport-history|framing", sid, nil)
				break
			}
			got, _, oerr := mtp1.Open(cur.key, w[off+4:], 0)
			want := mtp1.Msg{Salt: cur.salt, Session: cur.session, MsgID: clientID[0] + int64(4*step), SeqNo: cur.seq | 1, Body: body}
			if oerr != nil {
				run.Violation("transport-history|server-cannot-open|"+vr.MsgClass(oerr.Error())+fmt.Sprintf("|step>0=%v", step > 0), fmt.Sprintf("%s: %v (packet sealed with parameters of an earlier write?)", sid, oerr), map[string]any{"dir": "transport-history", "step": step})
			} else if !got.Equal(want) {
				run.Violation("transport-history|stale-"+diff(got, want), fmt.Sprintf("%s: packet carries %v, the session parameters at this write are %v", sid, got, want), map[string]any{"dir": "transport-history", "step": step})
			}
		}
	}
	concurrent(run)

	// ---- unencrypted
	for _, n := range lengths {
		if n > 2000 {
			continue
		}
		for mi := 0; mi < 4; mi++ {
			id := fmt.Sprintf("plain len=%d id%d", n, mi)
			rep := map[string]any{"dir": "plain", "len": n, "id": mi}
			body := pat(n, func(i int) byte { return byte(i ^ 0x5a) })
			var out []byte
			p, pm, fr := vr.Try(func() { out, _ = (&messages.Unencrypted{Msg: body, MsgID: clientID[mi]}).Serialize(nil) })
			run.Eval(id, !p)
			if p {
				run.Violation("plain|serialize|panic|"+vr.MsgClass(pm)+"|"+fr, id, rep)
				continue
			}
			want := make([]byte, 20, 20+n)
			binary.LittleEndian.PutUint64(want[8:], uint64(clientID[mi]))
			binary.LittleEndian.PutUint32(want[16:], uint32(n))
			want = append(want, body...)
			if !bytes.Equal(out, want) {
				run.Violation("plain|serialize|layout", id+": not (0:int64, msg_id, length, body)", rep)
			}
			// server -> client
			in := append([]byte{}, want...)
			binary.LittleEndian.PutUint64(in[8:], uint64(serverID[mi]))
			var u *messages.Unencrypted
			var err error
			p, pm, fr = vr.Try(func() { u, err = messages.DeserializeUnencrypted(in) })
			if p {
				run.Violation("plain|deserialize|panic|"+vr.MsgClass(pm)+"|"+fr, id, rep)
			} else if err != nil {
				run.Violation("plain|deserialize|error", id+": "+err.Error(), rep)
			} else if u == nil {
				run.Violation("plain|deserialize|nothing-returned", id+": neither a message nor an error", rep)
			} else if u.MsgID != serverID[mi] || !bytes.Equal(u.Msg, body) || u.GetSeqNo() != 0 {
				run.Violation("plain|deserialize|fields-differ", id, rep)
			}
		}
	}
	run.Sample(map[string]any{"dir": "c2s", "key": "auth key #2 (first 8 bytes zero)", "salt": "0x0102030405060708", "len": 13, "ack": true})
	run.Sample(map[string]any{"dir": "s2c", "len": 16, "pad": 0, "msg_id": "t<<32|1"})
	run.Set("body_length_max", N)
	freepass.Run(run, run.ID, freepass.Rounds(run))
	run.Finish()
}

func diff(a, b mtp1.Msg) string {
	s := ""
	if a.Salt != b.Salt {
		s += "salt,"
	}
	if a.Session != b.Session {
		s += "session,"
	}
	if a.MsgID != b.MsgID {
		s += "msg_id,"
	}
	if a.SeqNo != b.SeqNo {
		s += "seq_no,"
	}
	if !bytes.Equal(a.Body, b.Body) {
		s += "body,"
	}
	return s
}

// concurrent: one goroutine seals while another opens and a third seals with another key, under the
// controlled scheduler; every interleaving at the synchronisation points the code has (none on the unchanged
// tree) within 2 delays. Key derivation and encryption must not share state between calls.
func concurrent(run *vr.Run) {
	keyA, keyB := authKeys[0], authKeys[3]
	bodyA, bodyB := pat(40, func(i int) byte { return byte(i) }), pat(24, func(i int) byte { return byte(200 - i) })
	srvMsg := mtp1.Msg{Salt: 9, Session: 8, MsgID: serverID[0], SeqNo: 3, Body: pat(16, func(i int) byte { return byte(i * 9) })}
	pkt := mtp1.Seal(keyA, srvMsg, make([]byte, mtp1.PadLen(16)), 8)
	type outcome struct {
		a, b []byte
		ea   error
		eb   error
		o    *messages.Encrypted
		eo   error
	}
	runOnce := func(prefix []int) (sched.Exec, outcome) {
		s := sched.New(prefix)
		s.UnlockYields = true
		var out outcome
		s.Go("sealA", func() {
			out.a, out.ea = (&messages.Encrypted{Msg: bodyA, MsgID: clientID[0]}).Serialize(&informator{key: keyA, salt: 1, session: 2, seq: 0}, true)
		})
		s.Go("sealB", func() {
			out.b, out.eb = (&messages.Encrypted{Msg: bodyB, MsgID: clientID[1]}).Serialize(&informator{key: keyB, salt: 3, session: 4, seq: 2}, false)
		})
		s.Go("openA", func() { out.o, out.eo = messages.DeserializeEncrypted(append([]byte{}, pkt...), keyA) })
		oc := s.Run()
		return sched.Exec{Points: s.Points, Outcome: oc}, out
	}
	var last outcome
	st := sched.Explore(nil, sched.Bounds{Preemptions: -1, Delays: 3, EnvDev: -1},
		func(prefix []int) sched.Exec { x, o := runOnce(prefix); last = o; return x },
		func(choices []int, x sched.Exec) bool {
			id := fmt.Sprintf("concurrent %v", choices)
			run.Eval(id, len(choices) > 3)
			rep := map[string]any{"dir": "concurrent", "choices": choices}
			o := last
			ga, _, e1 := mtp1.Open(keyA, o.a, 0)
			gb, _, e2 := mtp1.Open(keyB, o.b, 0)
			switch {
			case o.ea != nil || o.eb != nil || o.eo != nil:
				run.Violation("concurrent|error", fmt.Sprintf("%s: %v %v %v", id, o.ea, o.eb, o.eo), rep)
			case e1 != nil || e2 != nil:
				run.Violation("concurrent|server-cannot-open", fmt.Sprintf("%s: packets sealed concurrently cannot be opened: %v %v", id, e1, e2), rep)
			case !ga.Equal(mtp1.Msg{Salt: 1, Session: 2, MsgID: clientID[0], SeqNo: 1, Body: bodyA}) || !gb.Equal(mtp1.Msg{Salt: 3, Session: 4, MsgID: clientID[1], SeqNo: 2, Body: bodyB}):
				run.Violation("concurrent|fields-differ", id, rep)
			case o.o == nil || o.o.Salt != 9 || !bytes.Equal(o.o.Msg, srvMsg.Body):
				run.Violation("concurrent|open-differs", id, rep)
			}
			return true
		})
	run.Set("concurrent_schedules", st.Executions)
}
