// C11 — salt rotation: rejected requests are retried, accepted ones are not,
// nothing stalls, the salt is saved.
package main

import (
	"fmt"
	"time"

	"github.com/xelaj/mtproto/zverif/hs"
	"github.com/xelaj/mtproto/zverif/ref/rpcsrv"
	"github.com/xelaj/mtproto/zverif/ref/tlw"
	"github.com/xelaj/mtproto/zverif/sched"
	"github.com/xelaj/mtproto/zverif/sess"
	"github.com/xelaj/mtproto/zverif/vr"
)

func newSessionCreated(salt int64) []byte {
	return (&tlw.W{}).U32(0x9ec20908).I64(1).I64(2).I64(salt).B
}

func scenarios(thorough bool) []*sess.Scenario {
	opt := rpcsrv.Options{Reorder: true, Container: true}
	obj := func(t int32) sess.Call { return sess.Call{Tag: t, Kind: rpcsrv.KObj} }
	// rejected requests of every result kind: a re-sent request must keep what its caller declared (a vector
	// result needs the caller's decoder hint again under the new msg_id)
	vecInt := func(t int32) sess.Call { return sess.Call{Tag: t, Kind: rpcsrv.KVecInt} }
	vecObj := func(t int32) sess.Call { return sess.Call{Tag: t, Kind: rpcsrv.KVecObj} }
	boolean := func(t int32) sess.Call { return sess.Call{Tag: t, Kind: rpcsrv.KBool} }
	rpcErr := func(t int32) sess.Call { return sess.Call{Tag: t, Kind: rpcsrv.KErr} }
	sc := []*sess.Scenario{
		// the happy path of the property record: one rotation, one request, resumed session
		{Name: "R-n1-k1", Salt: 100, Opt: opt, RotateBefore: map[int]int64{1: 200}, Callers: [][]sess.Call{{vecInt(1)}}},
		// one request accepted before the rotation, one rejected by it
		{Name: "R-n2-k1", Salt: 100, Opt: opt, RotateBefore: map[int]int64{2: 200}, Callers: [][]sess.Call{{vecObj(1)}, {vecObj(2)}}},
		// two rotations in one process: the retry of the first rejection is rejected again
		{Name: "R-n1-k2", Salt: 100, Opt: opt, RotateBefore: map[int]int64{1: 200, 2: 300}, Callers: [][]sess.Call{{vecObj(1)}}},
		// two rotations separated by successful traffic, then a probe
		// three rotations in a row hit the same request: it is rejected three times and executed once
		{Name: "R-n1-k3", Salt: 100, Opt: opt, RotateBefore: map[int]int64{1: 200, 2: 300, 3: 400}, Callers: [][]sess.Call{{vecInt(1), obj(2)}}},
		{Name: "R-n1-k2-probe", Salt: 100, Opt: opt, RotateBefore: map[int]int64{1: 200, 4: 300}, Callers: [][]sess.Call{{boolean(1), rpcErr(2), vecInt(3)}}},
		// rotation at an explorer-chosen moment (server event) with two callers in flight
		{Name: "R-n2-free-rotation", Salt: 100, Opt: opt, Script: []rpcsrv.Event{{Kind: rpcsrv.EvRotate, Salt: 200, Label: "rotate"}}, Callers: [][]sess.Call{{vecInt(1), obj(3)}, {boolean(2)}}},
		// the stored salt is already stale when the client resumes (rotation while away), then a second one
		{Name: "R-stale-store-k2", Salt: 100, StoredSalt: i64(50), Opt: opt, RotateBefore: map[int]int64{3: 300}, Callers: [][]sess.Call{{obj(1), obj(2)}}},
		// new_session_created announces a new salt
		{Name: "R-new-session-created", Salt: 100, Opt: opt, Callers: [][]sess.Call{{obj(1), obj(2)}},
			Script: []rpcsrv.Event{{Kind: rpcsrv.EvRotate, Salt: 200, Label: "rotate+new_session_created"}},
			Setup: func(w *sess.World) {
				// the announcement is queued as soon as the rotation event fires (see judge: it is sent under the new salt)
				w.Srv.OnRotate = func(s *rpcsrv.Server) {
					s.LastToldSalt = s.Salt
					s.Queue = append([]*rpcsrv.Out{{Body: newSessionCreated(s.Salt), Content: true, Label: "new_session_created", Kind: -1}}, s.Queue...)
				}
			}},
		// the same with a session store that fails once, at the announcement (the client only warns there); the
		// rejection of the request that was on its way names the same salt and is the second chance to save it.
		// The server keeps its order here: a store failure while a bad_server_salt is processed ends the process
		// in the unchanged library, which no statement is about
		{Name: "R-new-session-created-store-fails-once", Salt: 100, Opt: rpcsrv.Options{IDAtGeneration: true}, Callers: [][]sess.Call{{obj(1), obj(2)}},
			Script: []rpcsrv.Event{{Kind: rpcsrv.EvRotate, Salt: 200, Label: "rotate+new_session_created"}},
			Setup: func(w *sess.World) {
				w.Store.FailAt = 1
				w.Srv.OnRotate = func(s *rpcsrv.Server) {
					s.LastToldSalt = s.Salt
					s.Queue = append([]*rpcsrv.Out{{Body: newSessionCreated(s.Salt), Content: true, Label: "new_session_created", Kind: -1}}, s.Queue...)
				}
			}},
	}
	// freshly keyed sessions: the key exchange runs first in the same execution (its requests leave entries in
	// the response table), then the salt rotates
	fresh := func(name string, rot map[int]int64, callers [][]sess.Call) *sess.Scenario {
		f := hs.Scenario(name, hs.Base(), 5)
		f.Opt, f.Callers = opt, callers
		f.SaltAfterExchange = func(w *sess.World) { w.Srv.RotateBefore = rot }
		return f
	}
	sc = append(sc,
		fresh("F-n1-k1", map[int]int64{1: 200}, [][]sess.Call{{vecInt(1)}}),
		fresh("F-n0-k1-probe", map[int]int64{2: 200}, [][]sess.Call{{obj(1), obj(2)}}),
		fresh("F-n2-k1", map[int]int64{2: 200}, [][]sess.Call{{vecObj(1)}, {rpcErr(2)}}),
	)
	if thorough {
		sc = append(sc,
			&sess.Scenario{Name: "R-n3-k1", Salt: 100, Opt: opt, RotateBefore: map[int]int64{2: 200}, Callers: [][]sess.Call{{obj(1)}, {obj(2)}, {obj(3)}}},
			&sess.Scenario{Name: "R-n2-k2", Salt: 100, Opt: opt, RotateBefore: map[int]int64{2: 200, 4: 300}, Callers: [][]sess.Call{{obj(1), obj(3)}, {obj(2), obj(4)}}},
		)
	}
	return sc
}

func i64(v int64) *int64 { return &v }

func main() {
	run := vr.New("C11", "model_checking")
	defer run.Recover()
	run.Rule("histories with k salt rotations (fixed by the scenario: the salt changes just before the n-th frame; or free: a server event the explorer places) x n pending requests x all schedules and server answer orders within delay bound D and server-deviation bound E; oracle on every complete execution; non-trivial = at least one frame was rejected for a stale salt")
	run.Assume("F scenarios run the real key exchange against reference server R3 first (owned random stream), one delay bound lower because each execution repeats the exchange",
		"a stall is decided structurally: a thread parked forever on a channel operation at quiescence")
	D, E := 2, 1
	budget := 5 * time.Minute
	if run.Thorough() {
		D, E = 3, 1
		budget = 90 * time.Minute
	}
	run.Set("delay_bound", D)
	run.Set("server_deviation_bound", E)
	run.Sample(map[string]any{"scenario": "R-n2-k1", "history": "caller0 request accepted under salt 100; salt rotates to 200; caller1 request rejected; server answers [bad_server_salt(tag=2), result(tag=1)] (deviation: out of order)"})
	(&sess.XSpec{Run: run, Scenarios: scenarios(run.Thorough()), Budget: budget, FreeSet: run.ID,
		Bounds: func(sc *sess.Scenario) sched.Bounds {
			if sc.Fresh != nil { // every execution repeats a ~35 ms key exchange: one bound lower
				return sched.Bounds{Preemptions: -1, Delays: D - 1, EnvDev: E}
			}
			return sched.Bounds{Preemptions: -1, Delays: D, EnvDev: E}
		},
		Judge: judge,
		NonTrivial: func(w *sess.World) bool {
			for _, f := range w.Srv.Frames {
				if f.Rejected {
					return true
				}
			}
			return false
		},
		AllowSingleObservation: map[string]bool{"F-n1-k1": true, "F-n0-k1-probe": true, "R-n1-k1": true, "R-n1-k2": true, "R-n1-k2-probe": true, "R-stale-store-k2": true},
	}).Main()
}

func judge(run *vr.Run, sc *sess.Scenario, w *sess.World, choices []int) {
	if !sess.JudgeAlive(run, sc, w, choices) {
		return
	}
	rep := sess.Replay(sc, choices)
	// (1) executed at most once, ever
	for tag, n := range w.Srv.Exec {
		if n > 1 {
			run.Violation(fmt.Sprintf("executed-twice|rotations=%d", min(w.Srv.Rotations, 2)), fmt.Sprintf("%s: request tag %d was accepted and executed %d times; server emitted %v", sc.Name, tag, n, w.Srv.Emitted), rep)
		}
	}
	// (5) stall
	if st := w.Stalled(); len(st) > 0 {
		run.Violation(fmt.Sprintf("stall|%s|rotations=%d", sess.StallClass(st), min(w.Srv.Rotations, 2)), fmt.Sprintf("%s: blocked forever: %v; server emitted %v; executed %v", sc.Name, st, w.Srv.Emitted, w.Srv.ExecLog), rep)
		return
	}
	// (2) every caller got its own answer; exactly-once by quiescence
	sess.JudgeCalls(run, sc, w, choices)
	for _, p := range w.Srv.Problems {
		run.Violation("stream|"+vr.MsgClass(p), sc.Name+": "+p, rep)
	}
	// (3)+(4): if the client was told about a new salt, the store has it and the last frame used it
	told := false
	news := 0
	for _, e := range w.Srv.Emitted {
		if len(e) >= 15 && (e[:15] == "plain:bad_serve" || e[:15] == "plain:new_sessi") || containsSaltNews(e, w) {
			told = true
			news++
		}
	}
	if w.Store.FailAt > 0 && news < 2 {
		told = false // the only occasion to save the salt is the one on which the store failed
	}
	if told {
		if n := len(w.Store.Stores); n == 0 {
			run.Violation("salt-not-saved|never", sc.Name+": the client was told a new salt but never stored the session", rep)
		} else if last := w.Store.Stores[n-1]; last.Salt != w.Srv.Salt && lastToldSalt(w) == w.Srv.Salt {
			run.Violation("salt-not-saved|stale", fmt.Sprintf("%s: stored salt %d, server salt %d", sc.Name, last.Salt, w.Srv.Salt), rep)
		}
		if w.M != nil && lastToldSalt(w) == w.Srv.Salt && w.M.GetServerSalt() != w.Srv.Salt {
			run.Violation("salt-not-adopted", fmt.Sprintf("%s: client salt %d, server salt %d", sc.Name, w.M.GetServerSalt(), w.Srv.Salt), rep)
		}
	}
}

func containsSaltNews(label string, w *sess.World) bool { return false }

// lastToldSalt: the newest salt the server has communicated (bad_server_salt or
// new_session_created carry the salt current at the time they were queued).
func lastToldSalt(w *sess.World) int64 { return w.Srv.LastToldSalt }
