// C17 — RPC errors reach the right caller as structured errors for every error
// text; PHONE_MIGRATE_X reconnects to the configured data centre.
package main

import (
	"encoding/json"
	"fmt"
	"math"
	"os"
	"path/filepath"
	"reflect"
	"strconv"
	"strings"
	"time"

	"github.com/xelaj/mtproto"
	"github.com/xelaj/mtproto/internal/mtproto/objects"
	"github.com/xelaj/mtproto/zverif/freepass"
	"github.com/xelaj/mtproto/zverif/ref/rpcsrv"
	"github.com/xelaj/mtproto/zverif/ref/tlw"
	"github.com/xelaj/mtproto/zverif/sched"
	"github.com/xelaj/mtproto/zverif/sess"
	"github.com/xelaj/mtproto/zverif/vr"
)

// the 15 parameterised errors (reference copy, in precedence-free form: a text
// matches a row when it is prefix+digits+suffix)
var rows = [][2]string{
	{"EMAIL_UNCONFIRMED_", ""}, {"FILE_MIGRATE_", ""}, {"FILE_PART_", "_MISSING"}, {"FLOOD_TEST_PHONE_WAIT_", ""},
	{"FLOOD_WAIT_", ""}, {"INTERDC_", "_CALL_ERROR"}, {"INTERDC_", "_CALL_RICH_ERROR"}, {"NETWORK_MIGRATE_", ""},
	{"PASSWORD_TOO_FRESH_", ""}, {"PHONE_MIGRATE_", ""}, {"SESSION_TOO_FRESH_", ""}, {"SLOWMODE_WAIT_", ""},
	{"STATS_MIGRATE_", ""}, {"TAKEOUT_INIT_DELAY_", ""}, {"USER_MIGRATE_", ""},
}

var catalogue map[string]string

type want struct {
	strict  bool // the statement determines the result exactly
	msg     string
	param   any
	desc    string
	altMsg  string // alternative acceptable outcome for sign-prefixed numbers: text unchanged
	hasAlt  bool
	altDesc string
}

func allDigits(s string) bool {
	if s == "" {
		return false
	}
	for _, c := range s {
		if c < '0' || c > '9' {
			return false
		}
	}
	return true
}

func describe(key, text string) string {
	if d, ok := catalogue[key]; ok {
		return d
	}
	return text
}

// reference: what the statement promises for an error text
func reference(text string) want {
	for _, r := range rows {
		if !strings.HasPrefix(text, r[0]) || !strings.HasSuffix(text, r[1]) || len(text) < len(r[0])+len(r[1]) {
			continue
		}
		mid := text[len(r[0]) : len(text)-len(r[1])]
		num := mid
		signed := false
		if len(mid) > 1 && (mid[0] == '-' || mid[0] == '+') {
			num, signed = mid[1:], true
		}
		if !allDigits(num) {
			continue
		}
		n, err := strconv.ParseInt(mid, 10, 64)
		if err != nil || n > math.MaxInt || n < math.MinInt {
			continue // out of range: not a usable parameter
		}
		name := r[0] + "X" + r[1]
		w := want{strict: true, msg: name, param: int(n), desc: strings.Replace(describe(name, name), "%v", strconv.Itoa(int(n)), 1)}
		if signed {
			w.hasAlt, w.altMsg, w.altDesc = true, text, describe(text, text)
		}
		return w
	}
	return want{strict: true, msg: text, param: nil, desc: describe(text, text)}
}

func main() {
	run := vr.New("C17", "model_checking")
	defer run.Recover()
	freepass.MaybeReplay(run)
	b, err := os.ReadFile(filepath.Join(vr.Root(), "testdata", "error_catalogue.json"))
	if err != nil || json.Unmarshal(b, &catalogue) != nil {
		vr.HarnessError("catalogue snapshot: %v", err)
	}
	if run.IsWorker() || run.ReplayPath != "" && isScheduleReplay(run) {
		migrate(run)
	}
	run.Rule("(a) full product of the 15 parameterised rows x 17 parameter shapes x 7 codes, every catalogued name verbatim and with a numeric tail, strings with formatting verbs, against a reference parser written from the statement; (b,c) rpc_error delivery and PHONE_MIGRATE_X scenarios explored under the scheduler for all schedules within the delay bound; non-trivial = distinct case whose result the statement determines")
	run.Assume("the set of parameterised errors is the reference copy of the 15-row table; documented descriptions are the committed snapshot testdata/error_catalogue.json of the shipped catalogue",
		"for sign-prefixed numbers (-1, +5) both readings (parameter, or text left unchanged) are accepted; the statement is silent")
	if run.ReplayPath != "" {
		var c struct {
			Text string
			Code int32
		}
		run.LoadReplay(&c)
		checkText(run, c.Text, c.Code)
		run.Finish()
	}
	params := []string{"0", "1", "42", "007", "-1", "+5", "2147483647", "9223372036854775807", "99999999999999999999", "", "abc", "1a", " 5", "５", "%d", "%s", "1_2"}
	codes := []int32{0, 303, 400, 420, 500, -503, math.MaxInt32}
	var texts []string
	for _, r := range rows {
		for _, p := range params {
			texts = append(texts, r[0]+p+r[1])
		}
		texts = append(texts, r[0]+"X"+r[1], strings.TrimSuffix(r[0], "_")+r[1])
	}
	for k := range catalogue {
		texts = append(texts, k, k+"_5", "5_"+k)
	}
	texts = append(texts, "", "%", "%d", "%!s(MISSING)", "100%", "FLOOD_WAIT_%d", "%v", "%s%s%s", "UNKNOWN_ERROR", "INTERDC_5_CALL", "INTERDC__CALL_ERROR", "INTERDC_3_CALL_RICH_ERROR", "FILE_PART_7", "_MISSING", "FILE_PART__MISSING")
	for _, t := range texts {
		for _, c := range codes {
			checkText(run, t, c)
		}
	}
	// history independence: every (text, code) again in reverse order must convert to the same error
	type conv struct {
		msg, desc string
		add       any
		code      int
	}
	get := func(t string, c int32) (cv conv) {
		vr.Try(func() {
			if e, ok := mtproto.RpcErrorToNative(&objects.RpcError{ErrorCode: c, ErrorMessage: t}).(*mtproto.ErrResponseCode); ok {
				cv = conv{e.Message, e.Description, e.AdditionalInfo, e.Code}
			}
		})
		return
	}
	fwd := map[string]conv{}
	for _, t := range texts {
		for _, c := range codes {
			fwd[fmt.Sprintf("%s/%d", t, c)] = get(t, c)
		}
	}
	for i := len(texts) - 1; i >= 0; i-- {
		for j := len(codes) - 1; j >= 0; j-- {
			if g := get(texts[i], codes[j]); !reflect.DeepEqual(g, fwd[fmt.Sprintf("%s/%d", texts[i], codes[j])]) {
				run.Violation("parse|history-dependent|"+textClass(texts[i]), fmt.Sprintf("RpcErrorToNative(%q, %d) gives %+v after one history of calls and %+v after another", texts[i], codes[j], fwd[fmt.Sprintf("%s/%d", texts[i], codes[j])], g), map[string]any{"Text": texts[i], "Code": codes[j]})
				i = -1
				break
			}
		}
	}
	run.Set("error_texts", len(texts))
	run.Set("catalogue_entries", len(catalogue))
	run.Sample(map[string]any{"text": "INTERDC_3_CALL_RICH_ERROR", "code": 500})
	run.Sample(map[string]any{"text": "FLOOD_WAIT_abc", "code": 420})
	// the shipped table must still name the same 15 errors
	got := mtproto.VerifSpecificErrors()
	seen := map[[2]string]bool{}
	for _, g := range got {
		seen[g] = true
	}
	for _, r := range rows {
		if !seen[r] {
			run.Violation("table|row-missing|"+r[0]+"X"+r[1], "parameterised error row missing from the table: "+r[0]+"X"+r[1], nil)
		}
	}
	migrate(run)
}

func isScheduleReplay(run *vr.Run) bool {
	b, _ := os.ReadFile(run.ReplayPath)
	return strings.Contains(string(b), `"scenario"`)
}

func checkText(run *vr.Run, text string, code int32) {
	id := fmt.Sprintf("%q/%d", text, code)
	rep := map[string]any{"Text": text, "Code": code}
	run.Begin("parse", id, rep)
	defer run.End()
	w := reference(text)
	var e error
	p, pm, fr := vr.Try(func() { e = mtproto.RpcErrorToNative(&objects.RpcError{ErrorCode: code, ErrorMessage: text}) })
	run.Eval(id, w.strict)
	cls := textClass(text)
	if p {
		run.Violation("parse|panic|"+cls+"|"+fr, fmt.Sprintf("RpcErrorToNative(%s) panics: %s in %s", id, pm, fr), rep)
		return
	}
	r, ok := e.(*mtproto.ErrResponseCode)
	if !ok {
		run.Violation("parse|not-structured|"+cls, fmt.Sprintf("RpcErrorToNative(%s) returned %T", id, e), rep)
		return
	}
	if r.Code != int(code) {
		run.Violation("parse|code|"+cls, fmt.Sprintf("%s: code %d", id, r.Code), rep)
	}
	// the description is determined by the statement only for catalogued names; the parameter is compared as a
	// number, whatever integer type carries it
	sameParam := func(got, want any) bool {
		if want == nil || got == nil {
			return want == nil && got == nil
		}
		return fmt.Sprint(got) == fmt.Sprint(want)
	}
	descOK := func(name, got, want string) bool {
		if _, known := catalogue[name]; !known {
			return true
		}
		return got == want
	}
	okMain := r.Message == w.msg && sameParam(r.AdditionalInfo, w.param) && descOK(w.msg, r.Description, w.desc)
	okAlt := w.hasAlt && r.Message == w.altMsg && r.AdditionalInfo == nil && descOK(w.altMsg, r.Description, w.altDesc)
	if !okMain && !okAlt {
		field := "message"
		if r.Message == w.msg {
			field = "parameter"
			if sameParam(r.AdditionalInfo, w.param) {
				field = "description"
			}
		}
		run.Violation("parse|"+field+"|"+cls, fmt.Sprintf("%s: got (%q, %v, %q), reference (%q, %v, %q)", id, r.Message, r.AdditionalInfo, r.Description, w.msg, w.param, w.desc), rep)
	}
	// the standalone expander agrees
	var name string
	var add any
	if p, _, _ := vr.Try(func() { name, add = mtproto.TryExpandError(text) }); !p {
		if !(name == w.msg && sameParam(add, w.param)) && !(w.hasAlt && name == w.altMsg && add == nil) {
			run.Violation("expand|"+cls, fmt.Sprintf("TryExpandError(%q) = (%q, %v), reference (%q, %v)", text, name, add, w.msg, w.param), rep)
		}
	}
}

func textClass(t string) string {
	for _, r := range rows {
		if strings.HasPrefix(t, r[0]) && strings.HasSuffix(t, r[1]) && len(t) >= len(r[0])+len(r[1]) {
			mid := t[len(r[0]) : len(t)-len(r[1])]
			switch {
			case mid == "":
				return "row:" + r[0] + "X" + r[1] + "|param-absent"
			case allDigits(mid):
				if _, err := strconv.Atoi(mid); err != nil {
					return "row:" + r[0] + "X" + r[1] + "|param-out-of-range"
				}
				return "row:" + r[0] + "X" + r[1] + "|param-digits"
			case (mid[0] == '-' || mid[0] == '+') && allDigits(mid[1:]):
				return "row:" + r[0] + "X" + r[1] + "|param-signed"
			}
			return "row:" + r[0] + "X" + r[1] + "|param-non-numeric"
		}
	}
	if strings.Contains(t, "%") {
		return "free-text-with-verbs"
	}
	if _, ok := catalogue[t]; ok {
		return "catalogued"
	}
	return "free-text"
}

// ---- (b), (c): delivery and migration under the scheduler ------------------------

const addrB = "10.0.0.2:443"

func migrateScenario(name, text string, dc map[int]string, second bool) *sess.Scenario {
	callers := [][]sess.Call{{{Tag: 1, Kind: rpcsrv.KObj}}}
	if second {
		callers = append(callers, []sess.Call{{Tag: 2, Kind: rpcsrv.KObj}})
	}
	sc := &sess.Scenario{Name: name, Salt: 8, Callers: callers, Opt: rpcsrv.Options{Gzip: true}} // the error may come gzip-packed
	sc.Setup = func(w *sess.World) {
		b := rpcsrv.New(sess.TestKey(), 8)
		b.Clock = w.S.Clock
		w.Net.Servers[addrB] = b
		w.Extra = map[string]any{"B": b}
		w.Srv.Override = func(tag int32, kind rpcsrv.Kind) []byte {
			if tag == 1 {
				return (&tlw.W{}).U32(0x2144ca19).I32(303).Str([]byte(text)).B
			}
			return nil
		}
	}
	sc.AfterConnect = func(w *sess.World) { w.M.SetDCList(dc) }
	return sc
}

const addrC = "10.0.0.3:443"

func withOtherClient(sc *sess.Scenario) *sess.Scenario {
	own := sc.AfterConnect
	sc.AfterConnect = func(w *sess.World) {
		other, err := mtproto.NewMTProto(mtproto.Config{SessionStorage: &sess.MemStore{}, ServerHost: "x:1"})
		if err != nil {
			panic(err)
		}
		theirs := map[int]string{2: "10.9.9.9:443", 9: "10.9.9.9:443"}
		other.SetDCList(theirs)
		own(w)
		other.SetDCList(theirs)
	}
	return sc
}

type chainExpect struct {
	dials []string
	ops   []struct {
		errMsg string // "" = the request's own answer
		code   int
	}
}

// chainScenario: a history of migrations over three data centres. answers[server][tag] is the error text the
// server gives for that request ("" = the normal answer).
func chainScenario(name string, calls []sess.Call, answers map[string]map[int32]string, exp chainExpect) *sess.Scenario {
	sc := &sess.Scenario{Name: name, Salt: 8, Callers: [][]sess.Call{calls}}
	sc.Setup = func(w *sess.World) {
		mk := func(addr string, srv *rpcsrv.Server) {
			a := answers[addr]
			srv.Override = func(tag int32, kind rpcsrv.Kind) []byte {
				if text, ok := a[tag]; ok && text != "" {
					code := int32(303)
					if !strings.HasPrefix(text, "PHONE_MIGRATE") {
						code = 400
					}
					return (&tlw.W{}).U32(0x2144ca19).I32(code).Str([]byte(text)).B
				}
				return nil
			}
		}
		b, c := rpcsrv.New(sess.TestKey(), 8), rpcsrv.New(sess.TestKey(), 8)
		b.Clock, c.Clock = w.S.Clock, w.S.Clock
		w.Net.Servers[addrB], w.Net.Servers[addrC] = b, c
		mk(sess.Addr, w.Srv)
		mk(addrB, b)
		mk(addrC, c)
		w.Extra = map[string]any{"chain": exp}
	}
	sc.AfterConnect = func(w *sess.World) { w.M.SetDCList(map[int]string{2: addrB, 4: addrC}) }
	return sc
}

func scenarios() []*sess.Scenario {
	cfg := map[int]string{2: addrB}
	obj := func(t int32) sess.Call { return sess.Call{Tag: t, Kind: rpcsrv.KObj} }
	type opx = struct {
		errMsg string
		code   int
	}
	return []*sess.Scenario{
		// histories of several migrations: state kept from one migration must not leak into the next
		chainScenario("H-migrate-error-migrate", []sess.Call{obj(1), obj(2)},
			map[string]map[int32]string{sess.Addr: {1: "PHONE_MIGRATE_2"}, addrB: {1: "PHONE_NUMBER_INVALID", 2: "PHONE_MIGRATE_4"}},
			chainExpect{dials: []string{sess.Addr, addrB, addrC}, ops: []opx{{"PHONE_NUMBER_INVALID", 400}, {"", 0}}}),
		chainScenario("H-migrate-twice-in-a-row", []sess.Call{obj(1)},
			map[string]map[int32]string{sess.Addr: {1: "PHONE_MIGRATE_2"}, addrB: {1: "PHONE_MIGRATE_4"}},
			chainExpect{dials: []string{sess.Addr, addrB, addrC}, ops: []opx{{"", 0}}}),
		chainScenario("H-migrate-ok-migrate-back-and-forth", []sess.Call{obj(1), obj(2), obj(3)},
			map[string]map[int32]string{sess.Addr: {1: "PHONE_MIGRATE_2"}, addrB: {2: "PHONE_MIGRATE_4"}, addrC: {3: "PHONE_MIGRATE_2"}},
			chainExpect{dials: []string{sess.Addr, addrB, addrC, addrB}, ops: []opx{{"", 0}, {"", 0}, {"", 0}}}),
		chainScenario("H-flood-5-then-flood-30", []sess.Call{obj(1), obj(2)},
			map[string]map[int32]string{sess.Addr: {1: "FLOOD_WAIT_5", 2: "FLOOD_WAIT_30"}},
			chainExpect{dials: []string{sess.Addr}, ops: []opx{{"FLOOD_WAIT_X|5", 400}, {"FLOOD_WAIT_X|30", 400}}}),
		{Name: "B-rpc-error-among-callers", Salt: 8, Opt: rpcsrv.Options{Reorder: true, Container: true, Gzip: true},
			Callers: [][]sess.Call{{{Tag: 1, Kind: rpcsrv.KObj}}, {{Tag: 2, Kind: rpcsrv.KErr}}, {{Tag: 3, Kind: rpcsrv.KBool}}}},
		migrateScenario("M-configured", "PHONE_MIGRATE_2", cfg, false),
		migrateScenario("M-configured-second-caller", "PHONE_MIGRATE_2", cfg, true),
		migrateScenario("M-unconfigured-9", "PHONE_MIGRATE_9", cfg, false),
		migrateScenario("M-unconfigured-0", "PHONE_MIGRATE_0", cfg, false),
		migrateScenario("M-unconfigured-neg", "PHONE_MIGRATE_-1", cfg, false),
		migrateScenario("M-param-absent", "PHONE_MIGRATE_", cfg, false),
		migrateScenario("M-param-nonnumeric", "PHONE_MIGRATE_x", cfg, false),
		// another client of the same process has its own table of data centres: what it configures (before and
		// after this client configures its own) is not this client's business
		withOtherClient(migrateScenario("M-configured-while-another-client-has-another-table", "PHONE_MIGRATE_2", cfg, false)),
		withOtherClient(migrateScenario("M-unconfigured-9-while-another-client-configures-9", "PHONE_MIGRATE_9", cfg, false)),
	}
}

func migrate(run *vr.Run) {
	D := 2
	budget := 5 * time.Minute
	if run.Thorough() {
		D = 3
		budget = 90 * time.Minute
	}
	run.Set("delay_bound", D)
	single := map[string]bool{}
	for _, sc := range scenarios() {
		if len(sc.Callers) == 1 {
			single[sc.Name] = true
		}
	}
	(&sess.XSpec{Run: run, Scenarios: scenarios(), Budget: budget, FreeSet: run.ID,
		Bounds:                 func(*sess.Scenario) sched.Bounds { return sched.Bounds{Preemptions: -1, Delays: D, EnvDev: 1} },
		Judge:                  judgeMigrate,
		NonTrivial:             sess.AnyReturned,
		AllowSingleObservation: single,
	}).Main()
}

func judgeMigrate(run *vr.Run, sc *sess.Scenario, w *sess.World, choices []int) {
	rep := sess.Replay(sc, choices)
	if exp, ok := w.Extra["chain"].(chainExpect); ok {
		judgeChain(run, sc, w, choices, exp)
		return
	}
	if sc.Name == "B-rpc-error-among-callers" {
		if sess.JudgeAlive(run, sc, w, choices) {
			sess.JudgeCalls(run, sc, w, choices)
		}
		return
	}
	if w.ConnErr != nil {
		run.Violation("connect-error", sc.Name+": "+w.ConnErr.Error(), rep)
		return
	}
	r := w.Results[0]
	if w.Fatal != nil {
		run.Violation(fmt.Sprintf("migrate|fatal|%s|%s|%s", sc.Name, vr.MsgClass(w.Fatal.Msg), w.Fatal.Frame), fmt.Sprintf("%s: goroutine %s panics: %s in %s", sc.Name, w.Fatal.Thread, w.Fatal.Msg, w.Fatal.Frame), rep)
		return
	}
	if r.Panic != "" {
		run.Violation(fmt.Sprintf("migrate|caller-panic|%s|%s", sc.Name, r.Frame), fmt.Sprintf("%s: MakeRequest panics in the caller: %s (in %s)", sc.Name, r.Panic, r.Frame), rep)
		return
	}
	if !r.Returned {
		run.Violation("migrate|caller-never-returns|"+sc.Name, fmt.Sprintf("%s: migrating caller blocked: %v; dials %v", sc.Name, w.Stalled(), w.Net.Dials), rep)
		return
	}
	B := w.Extra["B"].(*rpcsrv.Server)
	if strings.HasPrefix(sc.Name, "M-configured") {
		if len(w.Net.Dials) != 2 || w.Net.Dials[1] != addrB {
			run.Violation("migrate|wrong-target|"+sc.Name, fmt.Sprintf("%s: dialled %v, expected the second connection to go to %s", sc.Name, w.Net.Dials, addrB), rep)
		}
		if r.Err != nil || !reflect.DeepEqual(r.Val, &sess.VRes{Tag: 1}) {
			run.Violation("migrate|request-not-repeated|"+sc.Name, fmt.Sprintf("%s: caller got (%v, %v); B executed %v", sc.Name, r.Val, r.Err, B.ExecLog), rep)
		} else if B.Exec[1] != 1 {
			run.Violation("migrate|repeat-count|"+sc.Name, fmt.Sprintf("%s: data centre 2 executed the request %d times", sc.Name, B.Exec[1]), rep)
		}
		return
	}
	// unconfigured / malformed: an error is returned and nothing else is dialled
	if r.Err == nil {
		run.Violation("migrate|no-error|"+sc.Name, fmt.Sprintf("%s: call returned %v without error", sc.Name, r.Val), rep)
	}
	if len(w.Net.Dials) != 1 {
		run.Violation("migrate|dialled|"+sc.Name, fmt.Sprintf("%s: dialled %v", sc.Name, w.Net.Dials), rep)
	}
}

func judgeChain(run *vr.Run, sc *sess.Scenario, w *sess.World, choices []int, exp chainExpect) {
	rep := sess.Replay(sc, choices)
	if w.Fatal != nil {
		run.Violation(fmt.Sprintf("chain|fatal|%s|%s", sc.Name, vr.MsgClass(w.Fatal.Msg)), fmt.Sprintf("%s: goroutine %s panics: %s", sc.Name, w.Fatal.Thread, w.Fatal.Msg), rep)
		return
	}
	for i, r := range w.Results {
		if i >= len(exp.ops) {
			break
		}
		e := exp.ops[i]
		id := fmt.Sprintf("%s op %d", sc.Name, i)
		switch {
		case r.Panic != "":
			run.Violation(fmt.Sprintf("chain|caller-panic|%s|op%d", sc.Name, i), id+": "+r.Panic, rep)
		case !r.Returned:
			run.Violation(fmt.Sprintf("chain|never-returns|%s|op%d", sc.Name, i), fmt.Sprintf("%s: blocked %v; dials %v", id, w.Stalled(), w.Net.Dials), rep)
			return
		case e.errMsg == "":
			if r.Err != nil || !reflect.DeepEqual(r.Val, &sess.VRes{Tag: r.Call.Tag}) {
				run.Violation(fmt.Sprintf("chain|wrong-result|%s|op%d", sc.Name, i), fmt.Sprintf("%s: got (%v, %v), want its own answer; dials %v", id, r.Val, r.Err, w.Net.Dials), rep)
			}
		default:
			want := strings.SplitN(e.errMsg, "|", 2)
			ec, ok := r.Err.(*mtproto.ErrResponseCode)
			if !ok || ec.Message != want[0] || ec.Code != e.code || (len(want) == 2 && fmt.Sprint(ec.AdditionalInfo) != want[1]) {
				run.Violation(fmt.Sprintf("chain|wrong-error|%s|op%d", sc.Name, i), fmt.Sprintf("%s: got (%v, %#v), want error %s code %d", id, r.Val, r.Err, e.errMsg, e.code), rep)
			}
		}
	}
	if !reflect.DeepEqual(w.Net.Dials, exp.dials) {
		run.Violation("chain|dials|"+sc.Name, fmt.Sprintf("%s: dialled %v, want %v", sc.Name, w.Net.Dials, exp.dials), rep)
	}
}
