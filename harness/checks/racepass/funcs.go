package main

// Function-level sets of the free-running pass: the library's pure functions (codec, ciphers, framing, error
// conversion, link resolution, SRP) are called from several goroutines at once; every result is compared with
// what the same call gives sequentially or with the reference, and the race detector watches the library's
// package-level state (caches, pools, scratch buffers).

import (
	"bytes"
	"encoding/json"
	"fmt"
	rmath "github.com/xelaj/mtproto/internal/math"
	"math/big"
	"reflect"
	"sync"

	"github.com/xelaj/mtproto"
	ige "github.com/xelaj/mtproto/internal/aes_ige"
	"github.com/xelaj/mtproto/internal/encoding/tl"
	"github.com/xelaj/mtproto/internal/mode"
	"github.com/xelaj/mtproto/internal/mtproto/messages"
	"github.com/xelaj/mtproto/internal/mtproto/objects"
	"github.com/xelaj/mtproto/telegram"
	"github.com/xelaj/mtproto/telegram/deeplinks"
	"github.com/xelaj/mtproto/zverif/hs"
	"github.com/xelaj/mtproto/zverif/ref/mtp1"
	"github.com/xelaj/mtproto/zverif/ref/srpref"
	"github.com/xelaj/mtproto/zverif/tlx"
)

type collector struct {
	mu   sync.Mutex
	rep  report
	seen map[string]bool
}

func newCollector(name string) *collector {
	return &collector{rep: report{Scenario: name}, seen: map[string]bool{}}
}

func (c *collector) wrong(format string, a ...any) {
	s := fmt.Sprintf(format, a...)
	c.mu.Lock()
	if !c.seen[s] && len(c.rep.Wrong) < 12 {
		c.seen[s] = true
		c.rep.Wrong = append(c.rep.Wrong, s)
	}
	c.mu.Unlock()
}

// guard runs f and reports a panic as a wrong result of class cls.
func (c *collector) guard(cls string, f func()) {
	defer func() {
		if r := recover(); r != nil {
			c.wrong("%s|panic|%v", cls, r)
		}
	}()
	f()
}

// together starts n goroutines that leave a barrier at the same moment.
func together(n int, f func(g int)) {
	var ready, done sync.WaitGroup
	start := make(chan struct{})
	for g := 0; g < n; g++ {
		g := g
		ready.Add(1)
		done.Add(1)
		go func() {
			defer done.Done()
			ready.Done()
			<-start
			f(g)
		}()
	}
	ready.Wait()
	close(start)
	done.Wait()
}

// ---- codec (C01, C02, C15) ---------------------------------------------------------------------------

func codecSet(rounds int, enc *json.Encoder) {
	reg := tlx.Load()
	gen := &tlx.Gen{R: reg}
	type item struct {
		name string
		v    reflect.Value
		seq  []byte
	}
	var items []*item
	for _, e := range reg.Entries {
		if !e.IsStruct() {
			continue
		}
		if v, ok := gen.Build(e.Type, 2, false); ok && tlx.Encodable(v) {
			items = append(items, &item{name: e.Name(), v: v})
		}
	}
	// phase 1: the very first encodings of a type happen at the same moment in 4 goroutines
	c := newCollector("every constructor: 4 goroutines encode (even entries) or decode (odd entries) a value of it at the same moment, the first use of the type in the process")
	for idx, it := range items {
		const G = 4
		var out [G][]byte
		var errs [G]error
		var back [G][]byte
		if idx%2 == 1 {
			// odd items: the bytes are made first (sequentially), then the very first decodings of the type
			// happen at the same moment
			seq, serr := tl.Marshal(it.v.Interface().(tl.Object))
			if serr != nil {
				continue
			}
			it.seq = seq
			together(G, func(g int) {
				c.guard("codec|first-use-decode", func() {
					if o, err := tl.DecodeUnknownObject(append([]byte{}, seq...)); err == nil {
						back[g], _ = tl.Marshal(o)
					}
				})
			})
			c.rep.Rounds++
			for g := 0; g < G; g++ {
				if !bytes.Equal(back[g], back[0]) || (back[g] != nil && !bytes.Equal(back[g], seq)) {
					c.wrong("codec|first-use-decode|decoded-values-differ")
				}
			}
			continue
		}
		together(G, func(g int) {
			c.guard("codec|first-use", func() {
				out[g], errs[g] = tl.Marshal(it.v.Interface().(tl.Object))
				if errs[g] == nil {
					if o, err := tl.DecodeUnknownObject(out[g]); err == nil {
						back[g], _ = tl.Marshal(o)
					}
				}
			})
		})
		seq, serr := tl.Marshal(it.v.Interface().(tl.Object))
		if serr == nil {
			it.seq = seq
		}
		c.rep.Rounds++
		for g := 0; g < G; g++ {
			if (errs[g] == nil) != (serr == nil) || !bytes.Equal(out[g], seq) {
				c.wrong("codec|first-use|marshal-differs-from-sequential")
			} else if serr == nil && back[g] != nil && !bytes.Equal(back[g], seq) {
				c.wrong("codec|first-use|decoded-value-re-encodes-differently")
			}
		}
	}
	enc.Encode(c.rep)
	// phase 2: different constructors in different goroutines, results held while the others run
	c = newCollector("all constructors spread over 8 goroutines, encode + decode + re-encode, results compared with the sequential bytes at the end")
	n := rounds/30 + 1
	for r := 0; r < n; r++ {
		const G = 8
		held := make([][][]byte, G)
		together(G, func(g int) {
			for i := g; i < len(items); i += G {
				it := items[(i+r*7)%len(items)]
				if it.seq == nil {
					continue // not encodable at all (recorded finding of C01)
				}
				c.guard("codec|mixed", func() {
					b, err := tl.Marshal(it.v.Interface().(tl.Object))
					if err != nil {
						c.wrong("codec|mixed|marshal-error")
						return
					}
					held[g] = append(held[g], b, it.seq)
					if o, err := tl.DecodeUnknownObject(b); err == nil {
						if b2, err := tl.Marshal(o); err != nil || !bytes.Equal(b2, it.seq) {
							c.wrong("codec|mixed|decoded-value-re-encodes-differently")
						}
					}
				})
			}
		})
		for g := range held {
			for i := 0; i+1 < len(held[g]); i += 2 {
				if !bytes.Equal(held[g][i], held[g][i+1]) {
					c.wrong("codec|mixed|marshal-differs-from-sequential")
				}
			}
		}
		c.rep.Rounds++
	}
	enc.Encode(c.rep)
}

// ---- envelope and ciphers (C03, C04, C05) -----------------------------------------------------------------

type inf struct {
	key           []byte
	salt, session int64
	seq           int32
}

func (i *inf) GetSessionID() int64  { return i.session }
func (i *inf) GetSeqNo() int32      { return i.seq }
func (i *inf) GetServerSalt() int64 { return i.salt }
func (i *inf) GetAuthKey() []byte   { return i.key }

func pat(n int, f func(i int) byte) []byte {
	b := make([]byte, n)
	for i := range b {
		b[i] = f(i)
	}
	return b
}

func cryptoSet(rounds int, enc *json.Encoder) {
	c := newCollector("6 goroutines, each with its own auth key and nonces: seal (client), open (reference), open server packets (client), temp-key seal/open, all at once")
	const G = 6
	iters := rounds * 4
	together(G, func(g int) {
		key := pat(256, func(i int) byte { return byte(i*7 + 1 + 31*g) })
		newNonce := pat(32, func(i int) byte { return byte(0x11 + i + 9*g) })
		srvNonce := pat(16, func(i int) byte { return byte(0xc3 - i - 5*g) })
		nn, sn := new(big.Int).SetBytes(newNonce), new(big.Int).SetBytes(srvNonce)
		var heldIn, heldCopy [][]byte
		for it := 0; it < iters; it++ {
			n := (it*5 + g) % 90
			body := pat(n/4*4, func(i int) byte { return byte(i*13 + it + g) })
			msgID := int64(1600000000)<<32 | int64(it*4+4*g*1000)
			c.guard("crypto|seal", func() {
				i := &inf{key: key, salt: int64(100 + g), session: int64(-5 - g), seq: int32(2 * it)}
				pkt, err := (&messages.Encrypted{Msg: append([]byte{}, body...), MsgID: msgID, AuthKeyHash: mtp1.KeyID(key)}).Serialize(i, false)
				if err != nil {
					c.wrong("crypto|seal|error")
					return
				}
				m, _, err := mtp1.Open(key, pkt, 0)
				if err != nil || !bytes.Equal(m.Body, body) || m.Salt != i.salt || m.Session != i.session || m.MsgID != msgID {
					c.wrong("crypto|seal|reference-cannot-open-or-fields-differ")
				}
			})
			c.guard("crypto|open", func() {
				sm := mtp1.Msg{Salt: int64(7 + g), Session: int64(-9 - g), MsgID: msgID | 1, SeqNo: int32(it), Body: body}
				pkt := mtp1.Seal(key, sm, pat(mtp1.PadLen(len(body)), func(i int) byte { return byte(0xe0 + i) }), 8)
				in := append([]byte{}, pkt...)
				e, err := messages.DeserializeEncrypted(in, key)
				if err != nil || e == nil || !bytes.Equal(e.Msg, body) || e.Salt != sm.Salt || e.SessionID != sm.Session || e.MsgID != sm.MsgID {
					c.wrong("crypto|open|server-packet-not-opened-as-sealed")
					return
				}
				// what the caller was given, and the buffer the caller gave, stay as they are while others work
				heldIn, heldCopy = append(heldIn, e.Msg, in), append(heldCopy, append([]byte{}, e.Msg...), append([]byte{}, pkt...))
				if len(heldIn) > 16 {
					for k := range heldIn {
						if !bytes.Equal(heldIn[k], heldCopy[k]) {
							c.wrong("crypto|open|returned-message-or-input-buffer-changed-later")
						}
					}
					heldIn, heldCopy = nil, nil
				}
			})
			c.guard("crypto|temp", func() {
				payload := pat(it%40, func(i int) byte { return byte(i + 1 + g) })
				ct := ige.EncryptMessageWithTempKeys(append([]byte{}, payload...), nn, sn)
				if got, ok := mtp1.TempOpenAny(ct, newNonce, srvNonce); !ok || !bytes.Equal(got, payload) {
					c.wrong("crypto|temp|reference-cannot-open")
				}
				padLen := (16 - (20+len(payload))%16) % 16
				back := ige.DecryptMessageWithTempKeys(mtp1.TempSeal(payload, make([]byte, padLen), newNonce, srvNonce), nn, sn)
				if !bytes.Equal(back, payload) {
					c.wrong("crypto|temp|client-cannot-open-reference-ciphertext")
				}
			})
		}
	})
	c.rep.Rounds = iters * G
	enc.Encode(c.rep)
}

// ---- framing (C08) ------------------------------------------------------------------------------------

type duplex struct {
	r *bytes.Reader // inbound stream, touched by the reading goroutine only
	w bytes.Buffer  // outbound stream, touched by the writing goroutine only
}

func (d *duplex) Read(p []byte) (int, error)  { return d.r.Read(p) }
func (d *duplex) Write(p []byte) (int, error) { return d.w.Write(p) }

func refFrame(v mode.Variant, msg []byte) []byte {
	if v == mode.Intermediate {
		return append([]byte{byte(len(msg)), byte(len(msg) >> 8), byte(len(msg) >> 16), byte(len(msg) >> 24)}, msg...)
	}
	w := len(msg) / 4
	if w < 127 {
		return append([]byte{byte(w)}, msg...)
	}
	return append([]byte{0x7f, byte(w), byte(w >> 8), byte(w >> 16)}, msg...)
}

func modeSet(rounds int, enc *json.Encoder) {
	c := newCollector("one mode object, a goroutine writing messages and a goroutine reading messages at the same time (as the client's senders and its reading routine do), both variants")
	wl := []int{4, 508, 512, 262144, 4, 1024, 508, 65536 * 4, 8}
	rl := []int{4, 508, 1024, 4, 262144, 512, 8}
	for r := 0; r < rounds/6+1; r++ {
		for _, v := range []mode.Variant{mode.Abridged, mode.Intermediate} {
			var inbound []byte
			for i, n := range rl {
				inbound = append(inbound, refFrame(v, pat(n, func(k int) byte { return byte(k*3 + i) }))...)
			}
			d := &duplex{r: bytes.NewReader(inbound)}
			m, err := mode.New(v, d)
			if err != nil {
				c.wrong("mode|new|%v", err)
				continue
			}
			ann := append([]byte{}, d.w.Bytes()...)
			together(2, func(g int) {
				if g == 0 {
					for i, n := range wl {
						c.guard("mode|write", func() {
							if err := m.WriteMsg(pat(n, func(k int) byte { return byte(k*5 + i) })); err != nil {
								c.wrong("mode|write|error")
							}
						})
					}
					return
				}
				for i, n := range rl {
					c.guard("mode|read", func() {
						b, err := m.ReadMsg()
						if err != nil || !bytes.Equal(b, pat(n, func(k int) byte { return byte(k*3 + i) })) {
							c.wrong("mode|read|message-%d-differs-or-error", i)
						}
					})
				}
			})
			want := ann
			for i, n := range wl {
				want = append(want, refFrame(v, pat(n, func(k int) byte { return byte(k*5 + i) }))...)
			}
			if !bytes.Equal(d.w.Bytes(), want) {
				c.wrong("mode|write|stream-differs-from-reference-framing")
			}
			c.rep.Rounds++
		}
	}
	enc.Encode(c.rep)
}

// ---- error conversion (C17) ------------------------------------------------------------------------------

func errorsSet(rounds int, enc *json.Encoder) {
	c := newCollector("8 goroutines convert the same rpc errors in different orders; every answer must equal the sequential one")
	type in struct {
		code int32
		text string
	}
	var ins []in
	for _, t := range []string{"FLOOD_WAIT_5", "FLOOD_WAIT_86400", "FLOOD_WAIT_abc", "PHONE_MIGRATE_2", "PHONE_MIGRATE_4", "NETWORK_MIGRATE_3", "USER_MIGRATE_1", "FILE_MIGRATE_5",
		"SLOWMODE_WAIT_30", "TAKEOUT_INIT_DELAY_7", "2FA_CONFIRM_WAIT_100", "FLOOD_TEST_PHONE_WAIT_9", "AUTH_KEY_UNREGISTERED", "SESSION_PASSWORD_NEEDED", "PHONE_CODE_INVALID", "SOMETHING_NEW_42", "PHONE_MIGRATE_", "FILE_PART_3_MISSING", "FILE_PART_12_MISSING"} {
		for _, code := range []int32{303, 400, 401, 420, 500} {
			ins = append(ins, in{code, t})
		}
	}
	conv := func(i in) string {
		e := mtproto.RpcErrorToNative(&objects.RpcError{ErrorCode: i.code, ErrorMessage: i.text})
		return fmt.Sprintf("%T %+v", e, e)
	}
	// sequential answers from a second, reversed pass too (history independence is C17's own business)
	want := make([]string, len(ins))
	for i := len(ins) - 1; i >= 0; i-- {
		want[i] = conv(ins[i])
	}
	for r := 0; r < rounds/10+1; r++ {
		together(8, func(g int) {
			for k := range ins {
				i := (k*(2*g+1) + g + r) % len(ins)
				c.guard("errors|convert", func() {
					if got := conv(ins[i]); got != want[i] {
						c.wrong("errors|convert|differs-from-sequential|%s", ins[i].text)
					}
				})
			}
		})
		c.rep.Rounds++
	}
	enc.Encode(c.rep)
}

// ---- links (C20) --------------------------------------------------------------------------------------

func linksSet(rounds int, enc *json.Encoder) {
	c := newCollector("8 goroutines resolve the same links in different orders; every answer must equal the sequential one")
	var links []string
	for _, sc := range []string{"", "https://", "http://", "tg://"} {
		for _, h := range []string{"t.me", "telegram.me", "telegram.dog", "evil.com", "t.me:443"} {
			for _, p := range []string{"", "/", "/BotFather", "/botfather", "/joinchat/AbC_123", "/joinchat/abc_123", "/joinchat/", "/a/b", "/joinchat/x/y", "/durov?start=1"} {
				links = append(links, sc+h+p)
			}
		}
	}
	res := func(l string) (out string) {
		defer func() {
			if r := recover(); r != nil {
				out = fmt.Sprint("panic: ", r)
			}
		}()
		d, err := deeplinks.Resolve(l)
		if err != nil {
			return "err"
		}
		return fmt.Sprintf("%T %+v", d, d)
	}
	want := make([]string, len(links))
	for i := range links {
		want[i] = res(links[i])
	}
	for r := 0; r < rounds/4+1; r++ {
		together(8, func(g int) {
			for k := range links {
				i := (k*(2*g+1) + g + r) % len(links)
				if got := res(links[i]); got != want[i] {
					c.wrong("links|resolve|differs-from-sequential|%s", links[i])
				}
			}
		})
		c.rep.Rounds++
	}
	enc.Encode(c.rep)
}

// ---- SRP (C18) ----------------------------------------------------------------------------------------

func srpSet(rounds int, enc *json.Encoder) {
	c := newCollector("4 goroutines answer SRP challenges at the same time (two passwords, one group, shared and different salts); every answer is checked by the reference verifier")
	g := srpref.Group{P: hs.HexBig(hs.TelegramPrime), G: 3}
	type job struct {
		pw     string
		s1, s2 []byte
		v      *srpref.Verifier
	}
	jobs := []*job{{pw: "password", s1: []byte("salt-one"), s2: []byte("salt-two")}, {pw: "пароль", s1: []byte("salt-one"), s2: []byte("other-salt")},
		{pw: "password", s1: []byte("salt-1b"), s2: []byte("salt-two")}, {pw: "x", s1: []byte("salt-one"), s2: []byte("salt-two")}}
	for _, j := range jobs {
		j.v = srpref.NewVerifier(g, []byte(j.pw), j.s1, j.s2)
	}
	pad256 := func(b []byte) []byte { return append(make([]byte, 256-len(b)), b...) }
	for r := 0; r < rounds/30+1; r++ {
		together(len(jobs), func(k int) {
			j := jobs[k]
			for it := 0; it < 2; it++ {
				b := big.NewInt(int64(1000 + 17*k + it + 5*r))
				c.guard("srp|answer", func() {
					ap := &telegram.AccountPassword{HasPassword: true, SRPID: 77, SRPB: pad256(j.v.B(b).Bytes()),
						CurrentAlgo: &telegram.PasswordKdfAlgoSHA256SHA256PBKDF2HMACSHA512iter100000SHA256ModPow{Salt1: j.s1, Salt2: j.s2, G: int32(g.G), P: g.P.Bytes()}}
					res, err := telegram.GetInputCheckPassword(j.pw, ap)
					o, ok := res.(*telegram.InputCheckPasswordSRPObj)
					if err != nil || !ok {
						c.wrong("srp|answer|error-or-wrong-kind")
						return
					}
					if !j.v.Check(o.A, o.M1, b) {
						c.wrong("srp|answer|rejected-by-the-reference-verifier")
					}
				})
			}
		})
		c.rep.Rounds++
	}
	enc.Encode(c.rep)
}

// firstDrawsSet: 8 goroutines make what are the first random draws of this process at the same moment (nonce,
// new_nonce, DH exponent), then again; all values of one kind must differ. The race detector sees whatever is
// built lazily around the OS source without synchronisation.
func firstDrawsSet(rounds int, enc *json.Encoder) {
	c := newCollector("8 goroutines draw nonce, new_nonce and a DH exponent at the same moment, the first draws of the process among them; no value of a kind may occur twice")
	p := hs.HexBig(hs.TelegramPrime)
	ga := new(big.Int).Exp(big.NewInt(3), big.NewInt(0x7654321), p)
	var mu sync.Mutex
	seen := map[string]bool{}
	note := func(kind string, v *big.Int) {
		mu.Lock()
		k := kind + v.Text(16)
		if seen[k] {
			c.wrong("first-draws|" + kind + "|drawn-twice")
		}
		seen[k] = true
		mu.Unlock()
	}
	for r := 0; r < rounds/20+2; r++ {
		together(8, func(k int) {
			c.guard("first-draws", func() {
				note("nonce", tl.RandomInt128().Int)
				note("new_nonce", tl.RandomInt256().Int)
				_, gb, _ := rmath.MakeGAB(3, ga, p)
				note("g_b", gb)
			})
		})
		c.rep.Rounds++
	}
	enc.Encode(c.rep)
}
