// racepass: the separate free-running pass of the session checks (C09, C10, C11, C16). The scenarios run with
// real goroutines on all cores over the in-memory network; the binary is built with -race. It reports, as
// JSON on stdout, wrong call results seen in free runs; the race detector writes its reports to the log named
// by GORACE. The parent check (sess.RacePass) turns both into violations. This pass samples schedules; it
// complements the exhaustive exploration under the cooperative scheduler, whose hand-offs hide
// unsynchronised accesses from any detector.
package main

import (
	"encoding/json"
	"flag"
	"fmt"
	"os"
	"strings"
	"time"

	"github.com/xelaj/mtproto/zverif/hs"
	"github.com/xelaj/mtproto/zverif/ref/rpcsrv"
	"github.com/xelaj/mtproto/zverif/ref/tlw"
	"github.com/xelaj/mtproto/zverif/sess"
)

func w() *tlw.W { return &tlw.W{} }

func callers(n, ops int, kinds []rpcsrv.Kind, mayFail bool) [][]sess.Call {
	var out [][]sess.Call
	tag := int32(1)
	for c := 0; c < n; c++ {
		var cs []sess.Call
		for o := 0; o < ops; o++ {
			cs = append(cs, sess.Call{Tag: tag, Kind: kinds[int(tag)%len(kinds)], MayFailOnConnLoss: mayFail})
			tag++
		}
		out = append(out, cs)
	}
	return out
}

func update(tag int32) rpcsrv.Event {
	return rpcsrv.Event{Kind: rpcsrv.EvSend, Label: fmt.Sprintf("update%d", tag), Body: w().U32(rpcsrv.ResID).I32(tag).B, Content: true}
}

func service(label string, body []byte) rpcsrv.Event {
	return rpcsrv.Event{Kind: rpcsrv.EvSend, Label: label, Body: body}
}

func scenarios(set string) []*sess.Scenario {
	all := []rpcsrv.Kind{rpcsrv.KObj, rpcsrv.KBool, rpcsrv.KVecInt, rpcsrv.KVecObj, rpcsrv.KErr}
	opt := rpcsrv.Options{Reorder: true, Container: true, Gzip: true}
	switch set {
	case "C09", "C10":
		return []*sess.Scenario{
			{Name: "4 callers x 3 mixed calls, any answer order/grouping/compression", Salt: 9, Opt: opt, Callers: callers(4, 3, all, false)},
			{Name: "3 callers x 2 calls with updates, pong, acks and new_session_created in between", Salt: 9, Opt: opt, Handler: true, Callers: callers(3, 2, all, false),
				Script: []rpcsrv.Event{update(901), update(902), service("pong", w().U32(0x347773c5).I64(1).I64(8).B),
					service("msgs_ack", w().U32(0x62d6b459).VecI64([]int64{4, 8}).B), update(903),
					service("new_session_created", w().U32(0x9ec20908).I64(1).I64(99).I64(9).B)}},
			{Name: "8 callers x 1 call", Salt: 9, Opt: opt, Callers: callers(8, 1, all, false)},
		}
	case "C11":
		fresh := hs.Base()
		fresh.Pad = 0
		return []*sess.Scenario{
			{Name: "3 callers x 2 calls, salt rotates before frames 2 and 5", Salt: 9, Opt: opt, Callers: callers(3, 2, all, false), RotateBefore: map[int]int64{2: 77, 5: 78}},
			{Name: "stale stored salt, 3 callers", Salt: 9, StoredSalt: func() *int64 { v := int64(5); return &v }(), Opt: opt, Callers: callers(3, 1, all, false)},
			{Name: "fresh key exchange, then 3 callers and a rotation", Fresh: &fresh, Seed: 11, Opt: opt, Callers: callers(3, 1, all, false), RotateBefore: map[int]int64{6: 79}},
		}
	case "C16":
		return []*sess.Scenario{
			{Name: "2 callers x 3 calls, the server closes the connection once in between", Salt: 9, Callers: callers(2, 3, []rpcsrv.Kind{rpcsrv.KObj, rpcsrv.KBool}, true),
				Script: []rpcsrv.Event{update(901), {Kind: rpcsrv.EvClose, Label: "close"}, update(902)}},
			{Name: "2 callers, unknown and malformed messages in between", Salt: 9, Handler: true, Callers: callers(2, 2, all, false),
				Script: []rpcsrv.Event{service("unregistered", w().U32(0x12345678).I32(1).B), service("rpc_result(unknown-id)", rpcsrv.ResultBody(int64(1600000000)<<32|0x7770, 5, rpcsrv.KObj, false)),
					service("truncated", w().U32(0x9ec20908).I64(1).B), update(904)}},
		}
	}
	return nil
}

type report struct {
	Scenario string   `json:"scenario"`
	Rounds   int      `json:"rounds"`
	Timeouts int      `json:"timeouts"`
	Wrong    []string `json:"wrong"`
	Problems []string `json:"problems"`
}

func sessionSet(set string, rounds int, enc *json.Encoder) {
	for _, sc := range scenarios(set) {
		rep := report{Scenario: sc.Name}
		seen := map[string]bool{}
		for r := 0; r < rounds; r++ {
			// a request written into a connection the server has already closed is lost for good (no
			// retransmission in the client): such rounds end at the deadline, so it is short there
			limit := 1500 * time.Millisecond
			if strings.Contains(sc.Name, "closes the connection") {
				limit = 250 * time.Millisecond
			}
			x, timedOut := sess.RunFree(sc, int64(r+1), limit)
			rep.Rounds++
			if timedOut {
				rep.Timeouts++ // no wall-clock oracle: a slow or lost call is not judged here
				continue
			}
			judge(&rep, seen, sc, x)
		}
		enc.Encode(rep)
	}
}

func judge(rep *report, seen map[string]bool, sc *sess.Scenario, x *sess.World) {
	add := func(s string) {
		if !seen[s] {
			seen[s] = true
			rep.Wrong = append(rep.Wrong, s)
		}
	}
	if x.ConnPanic != "" {
		add("connect-panic|" + x.ConnPanicFrame)
	} else if x.ConnErr != nil {
		add("connect-error|" + x.ConnErr.Error())
	}
	for _, res := range x.Results {
		if why := sess.CheckResult(res); why != "" && (x.ConnErr == nil && x.ConnPanic == "") {
			add(fmt.Sprintf("call|%s|kind=%d", why, res.Call.Kind))
		}
	}
	for _, p := range x.Srv.Problems {
		if !seen["p:"+p] && len(rep.Problems) < 5 {
			seen["p:"+p] = true
			rep.Problems = append(rep.Problems, p)
		}
	}
}

// multiSet: several clients at once in one process (what they share is the library's package-level state)
func multiSet(name string, mk func() []*sess.Scenario, rounds int, limit time.Duration, enc *json.Encoder) {
	rep := report{Scenario: name}
	seen := map[string]bool{}
	for r := 0; r < rounds; r++ {
		scs := mk()
		ws, timedOut := sess.RunFreeMulti(scs, int64(r+1), limit)
		rep.Rounds++
		if timedOut {
			rep.Timeouts++
			continue
		}
		for i, x := range ws {
			judge(&rep, seen, scs[i], x)
		}
	}
	enc.Encode(rep)
}

func main() {
	set := flag.String("set", "C09", "scenario set")
	rounds := flag.Int("rounds", 100, "free runs per scenario")
	flag.Parse()
	enc := json.NewEncoder(os.Stdout)
	all := []rpcsrv.Kind{rpcsrv.KObj, rpcsrv.KBool, rpcsrv.KVecInt, rpcsrv.KVecObj, rpcsrv.KErr}
	opt := rpcsrv.Options{Reorder: true, Container: true, Gzip: true}
	switch *set {
	case "C09", "C10", "C11", "C16":
		sessionSet(*set, *rounds, enc)
		if *set == "C09" || *set == "C10" {
			multiSet("two clients in one process, 2 callers x 2 calls each, gzip / containers", func() []*sess.Scenario {
				return []*sess.Scenario{
					{Name: "A", Salt: 9, Opt: opt, Callers: callers(2, 2, all, false)},
					{Name: "B", Salt: 12, Opt: opt, Callers: callers(2, 2, all, false)},
				}
			}, (*rounds+1)/2, 3*time.Second, enc)
		}
	case "C06", "C07":
		multiSet("two fresh clients exchange keys at the same time (different RSA keys, nonces, pq)", func() []*sess.Scenario {
			a, b := hs.Base(), hs.Base()
			a.Pad, b.Pad = 0, 0
			b.Key, b.P, b.Q, b.ServerNonce = hs.Key(1), 1073741789, 1073741827, hs.Nonce(1, 5)
			return []*sess.Scenario{
				{Name: "A", Fresh: &a, Callers: callers(1, 1, all, false)},
				{Name: "B", Fresh: &b, Callers: callers(1, 1, all, false)},
			}
		}, *rounds/10+2, 12*time.Second, enc)
		// the same exchange through the real tcpConn: a loopback socket, the server's answers arriving in pieces
		{
			// no short wall-clock oracle: a round that does not finish is judged only when the relay has moved no
			// byte for more than 30 s (every answer of the server has been in the client's socket that long and the
			// client has not reacted; the unchanged client reacts within milliseconds), else it is counted only
			rep := report{Scenario: "a fresh client exchanges keys over a loopback TCP connection, every answer arriving in pieces of 64 bytes"}
			seen := map[string]bool{}
			for r := 0; r < 2; r++ {
				a := hs.Base()
				a.Pad = 0
				sc := &sess.Scenario{Name: "T", Fresh: &a, OverTCP: true, Callers: callers(1, 2, all, false)}
				x, timedOut := sess.RunFree(sc, int64(r+1), 75*time.Second)
				rep.Rounds++
				if timedOut {
					if quiet := time.Duration(time.Now().UnixNano() - x.RelayLast.Load()); quiet > 30*time.Second {
						rep.Wrong = append(rep.Wrong, "hangs|the server's answers have been in the client's socket for more than 30 s (delivered in pieces of 64 bytes), the client neither completes the exchange nor sends anything")
						break
					}
					rep.Timeouts++
					continue
				}
				judge(&rep, seen, sc, x)
			}
			enc.Encode(rep)
		}
	case "C01", "C02", "C15":
		codecSet(*rounds, enc)
	case "C03", "C04", "C05":
		cryptoSet(*rounds, enc)
	case "C08":
		modeSet(*rounds, enc)
	case "C17":
		errorsSet(*rounds, enc)
	case "C20":
		linksSet(*rounds, enc)
	case "C18":
		srpSet(*rounds, enc)
	case "C19":
		firstDrawsSet(*rounds, enc) // must come first: the first draws of this process
		srpSet(*rounds, enc)
	}
}
