// C02 — TL wire format equals the schema-defined serialisation (reference R1).
package main

import (
	"bytes"
	"fmt"
	"path/filepath"
	"reflect"
	"strings"

	"github.com/xelaj/mtproto/internal/encoding/tl"
	"github.com/xelaj/mtproto/zverif/freepass"
	"github.com/xelaj/mtproto/zverif/ref/rpcsrv"
	"github.com/xelaj/mtproto/zverif/ref/tlw"
	"github.com/xelaj/mtproto/zverif/tlx"
	"github.com/xelaj/mtproto/zverif/vr"
)

func shapeClass(c tlx.Case) string {
	s := c.Shape
	if strings.HasPrefix(s, "iface:") || strings.HasPrefix(s, "obj:") {
		return s[:strings.IndexByte(s, ':')]
	}
	return s
}

func main() {
	run := vr.New("C02", "exploration")
	defer run.Recover()
	freepass.MaybeReplay(run)
	run.Rule("for every definition of schemes/api_latest.tl and every mtproto.tl definition that has a registered Go type: the shape alphabet of C01 (two bases, <=k field deviations, all shared-group presence patterns); expected bytes are produced by a serialiser that interprets the .tl line independently; non-trivial = distinct case with >=1 deviation whose bytes were compared")
	run.Assume("the i-th non-flags schema parameter corresponds to the i-th struct field (checked separately by C13)",
		"reference parser/serialiser R1 (harness/ref/tlschema, harness/tlx/ref.go, harness/ref/tlw) is trusted; its CRC rule reproduces all 1195 written ids of api_latest.tl")
	k := 1
	if run.Thorough() {
		k = 2
	}
	repo := tlx.RepoDir()
	sch, err := tlx.LoadSchemas(filepath.Join(repo, "schemes/api_latest.tl"), filepath.Join(repo, "schemes/mtproto.tl"))
	if err != nil {
		vr.HarnessError("schemas: %v", err)
	}
	reg := tlx.Load()
	g := &tlx.Gen{R: reg}
	if run.ReplayPath != "" {
		var c struct{ ID string }
		run.LoadReplay(&c)
		name := strings.SplitN(c.ID, "|", 2)[0]
		for _, e := range reg.Entries {
			if e.Name() == name {
				g.Cases(e, 2, func(cs tlx.Case) {
					if cs.ID == c.ID {
						checkCase(run, sch, e, cs)
					}
				})
			}
		}
		run.Finish()
	}
	covered, noSchema := 0, 0
	for _, e := range reg.Entries {
		if e.Enum {
			d, ok := sch.ByID[e.CRC]
			id := e.Name() + "|enum"
			run.Eval(id, ok)
			if !ok {
				continue
			}
			b, err := tl.Marshal(reflect.ValueOf(e.CRC).Convert(e.Type).Interface())
			want := (&tlw.W{}).U32(d.ID).B
			if err != nil || !bytes.Equal(b, want) {
				run.Violation("enum|bytes|"+e.Type.String(), id+": enum member is not serialised as its bare constructor id", map[string]any{"ID": id})
			}
			continue
		}
		if !e.IsStruct() {
			continue
		}
		if _, ok := sch.ByID[e.CRC]; !ok {
			noSchema++ // reported by C13 (registered but not defined)
			continue
		}
		if _, custom := reflect.New(e.Type.Elem()).Interface().(tl.Marshaler); custom && e.CRC == 0x3072cfa1 {
			continue // gzip_packed (its bytes are not a function of the value alone): driven from reference bytes in special()
		}
		// other types that code themselves (future_salts) are held to their schema line like everything else
		covered++
		baseBad := false
		g.Cases(e, k, func(c tlx.Case) {
			if baseBad {
				return // the base value already disagrees: every deviation would repeat the same finding
			}
			before := run.Violations() + run.KnownHits()
			checkCase(run, sch, e, c)
			if c.Devs == 0 && run.Violations()+run.KnownHits() > before {
				baseBad = true
			}
		})
	}
	special(run, sch)
	run.Set("constructors_compared", covered)
	run.Set("registered_without_schema_line", noSchema)
	run.Set("deviation_bound_k", k)
	freepass.Run(run, run.ID, freepass.Rounds(run))
	run.Finish()
}

var sampled = 0

func checkCase(run *vr.Run, sch *tlx.Schemas, e *tlx.Entry, c tlx.Case) {
	rep := map[string]any{"ID": c.ID}
	run.Begin(e.Name(), c.ID, rep)
	defer run.End()
	site := func(kind string) string {
		if c.Devs == 0 {
			return e.Name() + "|base|" + kind
		}
		return e.Name() + "|" + c.Field + "|" + shapeClass(c) + "|" + kind
	}
	want, rerr := sch.Encode(c.V)
	var got []byte
	var err error
	p, pm, fr := vr.Try(func() { got, err = tl.Marshal(c.V.Interface()) })
	if p {
		run.Eval(c.ID, false)
		run.Violation(site("encode-panic|"+vr.MsgClass(pm)+"|"+fr), c.ID+": Marshal panics: "+pm, rep)
		return
	}
	if rerr != nil {
		// no schema-defined encoding (nil object in a present group, layout mismatch): the encoder must refuse
		run.Eval(c.ID, false)
		if err == nil && tlx.Encodable(c.V) {
			run.Violation(site("no-reference-encoding|"+vr.MsgClass(rerr.Error())), c.ID+": "+rerr.Error(), rep)
		}
		return
	}
	if err != nil {
		run.Eval(c.ID, false)
		run.Violation(site("encode-error|"+vr.MsgClass(err.Error())), c.ID+": Marshal refuses a value the schema can carry: "+err.Error(), rep)
		return
	}
	run.Eval(c.ID, c.Devs > 0)
	if sampled < 3 && c.Devs > 0 {
		sampled++
		run.Sample(map[string]any{"case": c.ID, "expected_bytes_hex_prefix": fmt.Sprintf("%x", want[:min(len(want), 24)])})
	}
	// the bytes returned for the previous value are still held by its caller: they must not change under it
	if heldGot != nil && !bytes.Equal(heldGot, heldWant) {
		run.Violation("held-bytes-changed-by-a-later-Marshal", c.ID+": the bytes returned by the previous Marshal call ("+heldID+") changed during this call", rep)
		heldGot = nil
	}
	if bytes.Equal(got, want) {
		heldGot, heldWant, heldID = got, want, c.ID
	}
	if !bytes.Equal(got, want) {
		i := 0
		for i < len(got) && i < len(want) && got[i] == want[i] {
			i++
		}
		run.Violation(site("bytes-differ"), fmt.Sprintf("%s: Marshal gives %d bytes, the schema defines %d bytes; first difference at offset %d", c.ID, len(got), len(want), i), rep)
	}
	// schema-built bytes decode to the value
	var obj tl.Object
	p, pm, fr = vr.Try(func() { obj, err = tl.DecodeUnknownObject(want) })
	switch {
	case p:
		run.Violation(site("decode-panic|"+vr.MsgClass(pm)+"|"+fr), c.ID+": decoding schema-built bytes panics: "+pm, rep)
	case err != nil:
		run.Violation(site("decode-error"), c.ID+": schema-built bytes are refused: "+err.Error(), rep)
	default:
		if ok, path := tlx.Equal(tlx.Normalize(c.V), reflect.ValueOf(obj), ""); !ok {
			run.Violation(site("decode-differs"), c.ID+": schema-built bytes decode to a different value at "+path, rep)
		}
	}
}

var (
	heldGot, heldWant []byte
	heldID            string
)

type strHolder struct{ S []byte }

// special: the 2^24 limit, and decode-side service wrappers built from reference bytes.
func special(run *vr.Run, sch *tlx.Schemas) {
	reg := tlx.Load()
	g := &tlx.Gen{R: reg}
	// a constructor with one mandatory bytes field and one with a string field
	for _, name := range []string{"telegram.DataJson", "telegram.InputFileBig", "telegram.UploadSaveFilePartParams", "objects.GzipPacked"} {
		for _, e := range reg.Entries {
			if e.Name() != name || !e.IsStruct() {
				continue
			}
			v, ok := g.Build(e.Type, 2, true)
			if !ok {
				continue
			}
			st := e.Type.Elem()
			for i := 0; i < st.NumField(); i++ {
				ft := st.Field(i).Type
				isStr := ft.Kind() == reflect.String
				isBytes := ft.Kind() == reflect.Slice && ft.Elem().Kind() == reflect.Uint8
				if !isStr && !isBytes {
					continue
				}
				for _, n := range []int{1<<24 - 1, 1 << 24, 1<<24 + 1} {
					id := fmt.Sprintf("%s|%s=len%d", name, st.Field(i).Name, n)
					c := tlx.Clone(v)
					big := make([]byte, n)
					if isStr {
						c.Elem().Field(i).SetString(string(big))
					} else {
						c.Elem().Field(i).SetBytes(big)
					}
					var b []byte
					var err error
					p, pm, _ := vr.Try(func() { b, err = tl.Marshal(c.Interface()) })
					run.Eval(id, true)
					rep := map[string]any{"ID": id}
					switch {
					case p:
						run.Violation("limit|panic|"+vr.MsgClass(pm), id+": "+pm, rep)
					case n >= 1<<24 && err == nil:
						run.Violation(fmt.Sprintf("limit|len>=2^24-accepted|%s", map[bool]string{true: "string", false: "bytes"}[isStr]), fmt.Sprintf("%s: a %d-byte value is serialised (%d bytes out) although its length does not fit the 3-byte header", id, n, len(b)), rep)
					case n < 1<<24 && err != nil:
						run.Violation("limit|len<2^24-refused", id+": "+err.Error(), rep)
					case n < 1<<24:
						if want, rerr := sch.Encode(c); rerr != nil || !bytes.Equal(want, b) {
							run.Violation("limit|len=2^24-1-bytes-differ", id, rep)
						}
					}
				}
				break
			}
		}
	}
	// decode side: rpc_result / gzip_packed / msg_container from reference bytes
	payload := (&tlw.W{}).U32(0x2144ca19).I32(420).Str([]byte("FLOOD_WAIT_3")).B // rpc_error
	for _, tc := range []struct {
		name string
		b    []byte
	}{
		{"rpc_result(rpc_error)", (&tlw.W{}).U32(0xf35c6d01).I64(0x0102030405060708).Raw(payload).B},
		{"rpc_result(gzip(rpc_error))", (&tlw.W{}).U32(0xf35c6d01).I64(0x0102030405060708).Raw(rpcsrv.Gzip(payload)).B},
		{"gzip(rpc_error)", rpcsrv.Gzip(payload)},
		{"container(2)", (&tlw.W{}).U32(0x73f1f8dc).U32(2).I64(5).I32(1).I32(int32(len(payload))).Raw(payload).I64(9).I32(3).I32(int32(len(payload))).Raw(payload).B},
	} {
		id := "service|" + tc.name
		var obj tl.Object
		var err error
		p, pm, fr := vr.Try(func() { obj, err = tl.DecodeUnknownObject(tc.b) })
		run.Eval(id, true)
		if p || err != nil {
			run.Violation("service|"+tc.name+"|decode|"+vr.MsgClass(pm+fmt.Sprint(err))+"|"+fr, id+": reference-built bytes are not decoded", map[string]any{"ID": id})
			continue
		}
		s := fmt.Sprintf("%+v", derefAll(obj))
		if !strings.Contains(s, "FLOOD_WAIT_3") && tc.name != "container(2)" {
			run.Violation("service|"+tc.name+"|content", id+": decoded object does not contain the payload: "+s, map[string]any{"ID": id})
		}
	}
}

func derefAll(o tl.Object) any {
	v := reflect.ValueOf(o)
	for v.Kind() == reflect.Ptr && !v.IsNil() {
		v = v.Elem()
	}
	if v.Kind() == reflect.Struct {
		m := map[string]any{}
		for i := 0; i < v.NumField(); i++ {
			if v.Type().Field(i).PkgPath != "" {
				continue
			}
			f := v.Field(i)
			if f.Kind() == reflect.Interface && !f.IsNil() {
				if inner, ok := f.Interface().(tl.Object); ok {
					m[v.Type().Field(i).Name] = derefAll(inner)
					continue
				}
			}
			m[v.Type().Field(i).Name] = f.Interface()
		}
		return m
	}
	return o
}
