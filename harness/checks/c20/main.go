// C20 — resolving a Telegram link is total and maps usernames and invites
// correctly. Full product of a structured link alphabet, both orders of the
// template table (owned map-iteration seam), reference resolver R7 written from
// the statement.
package main

import (
	"fmt"
	"strings"
	"unicode"

	"github.com/xelaj/mtproto/telegram/deeplinks"
	"github.com/xelaj/mtproto/zverif/freepass"
	"github.com/xelaj/mtproto/zverif/sched"
	"github.com/xelaj/mtproto/zverif/vr"
)

type link struct {
	Scheme, Host, Port string
	Segs               []string
	Trail              bool
	Tail               string
}

func (l link) String() string {
	s := l.Scheme + l.Host + l.Port
	for _, g := range l.Segs {
		s += "/" + g
	}
	if l.Trail {
		s += "/"
	}
	return s + l.Tail
}

var reserved = []string{"t.me", "telegram.me", "telegram.dog", "tx.me", "telesco.pe"}

func isReserved(h string) bool {
	for _, r := range reserved {
		if r == h {
			return true
		}
	}
	return false
}

func unreserved(s string) bool {
	if s == "" {
		return false
	}
	for _, c := range s {
		if !(c >= 'a' && c <= 'z' || c >= 'A' && c <= 'Z' || c >= '0' && c <= '9' || c == '_' || c == '-' || c > 127 && unicode.IsLetter(c)) {
			return false // (letters outside ASCII written as themselves are plain username characters too)
		}
	}
	return true
}

// strict says whether the statement determines the result for this link.
func strict(l link) bool {
	switch l.Scheme {
	case "", "http://", "https://", "tg://", "ftp://":
	default:
		return false
	}
	if l.Port != "" && (l.Scheme == "" || l.Port == ":") {
		return false
	}
	if l.Trail {
		return false
	}
	for _, g := range l.Segs {
		if !unreserved(g) {
			return false
		}
	}
	if l.Host != "" && !isReserved(l.Host) {
		// foreign / look-alike host: must be an error whatever the rest is, provided it is
		// syntactically a plain host name in lower case
		for _, c := range l.Host {
			if !(c >= 'a' && c <= 'z' || c == '.') {
				return false
			}
		}
		if strings.HasSuffix(l.Host, ".") {
			return false // a trailing dot names the same DNS host; the statement is silent
		}
	}
	if l.Scheme == "" && l.Host == "" {
		return false // "/BotFather": no host at all; the first segment may be read as host
	}
	return true
}

// r7: the reference resolver. kind: "user", "join" or "err".
func r7(l link) (kind, val string) {
	if l.Scheme != "" && l.Scheme != "http://" && l.Scheme != "https://" {
		return "err", ""
	}
	if !isReserved(l.Host) {
		return "err", ""
	}
	switch {
	case len(l.Segs) == 1:
		return "user", strings.ToLower(l.Segs[0])
	case len(l.Segs) == 2 && l.Segs[0] == "joinchat":
		return "join", l.Segs[1]
	}
	return "err", ""
}

var theRun *vr.Run

func observe(s string) (kind, val string, panicked bool, pmsg, frame string) {
	var d deeplinks.Deeplink
	var err error
	if theRun != nil {
		theRun.Begin("resolve", s, map[string]any{"Link": s, "Perm": 0})
		defer theRun.End()
	}
	panicked, pmsg, frame = vr.Try(func() { d, err = deeplinks.Resolve(s) })
	if panicked {
		return "panic", "", true, pmsg, frame
	}
	if err != nil {
		return "err", "", false, "", ""
	}
	switch v := d.(type) {
	case *deeplinks.ResolveParameters:
		return "user", v.Domain, false, "", ""
	case *deeplinks.JoinParameters:
		return "join", v.Invite, false, "", ""
	case nil:
		return "nil-without-error", "", false, "", ""
	}
	return fmt.Sprintf("other:%T", d), "", false, "", ""
}

func class(l link) string {
	h := "foreign"
	switch {
	case l.Host == "":
		h = "nohost"
	case isReserved(l.Host):
		h = "reserved"
	}
	p := "noport"
	if l.Port != "" {
		p = "port"
	}
	sc := l.Scheme
	if sc == "" {
		sc = "noscheme"
	}
	shape := fmt.Sprintf("%dseg", len(l.Segs))
	if len(l.Segs) >= 1 && l.Segs[0] == "joinchat" {
		shape += "-joinchat"
	}
	if l.Trail {
		shape += "-slash"
	}
	t := "notail"
	if l.Tail != "" {
		t = "tail"
	}
	return strings.Join([]string{sc, h, p, shape, t}, "|")
}

func main() {
	run := vr.New("C20", "exploration")
	defer run.Recover()
	theRun = run
	freepass.MaybeReplay(run)
	run.Rule("full product scheme x host x port x path(0..3 segments, optional trailing slash) x tail, each under both orders of the template table; a case is non-trivial when it is distinct and the statement determines its result (strict sub-product) or it reaches the resolver past URL parsing")
	run.Assume("reference resolver R7 is written from the property statement",
		"outside the strict sub-product (escapes, Unicode, upper-case scheme/host, port without scheme, trailing slash, empty segments) only totality and order-independence are required",
		"map iteration order of the template table is owned through the rewritten range statement (2 orders)")

	if run.ReplayPath != "" {
		var c struct {
			Link string
			Perm int
		}
		run.LoadReplay(&c)
		sched.MapPerm = c.Perm
		k, v, _, pm, fr := observe(c.Link)
		fmt.Printf("replay %q perm=%d -> %s %q %s %s\n", c.Link, c.Perm, k, v, pm, fr)
		if k == "panic" {
			run.Violation("replay", "panic on replay", c)
		}
		run.Finish()
	}

	schemes := []string{"", "http://", "https://", "HTTP://", "tg://", "ftp://", "//"}
	hosts := append(append([]string{}, reserved...), "T.ME", "t.me.", "t.me.evil.com", "evilt.me", "localhost", "")
	ports := []string{"", ":443", ":80", ":"}
	segA := []string{"", "BotFather", "joinchat", "AbC_123", "abc_123", "BOTFATHER", "Юзер", "ÜNAL", "a-b", "%41bc", "юзер", "a b", "..", "{username}",
		// escaped '?', '#' and '%' (a second round of unescaping would cut or change them), an escape of an escape
		"Abc%3Fdef", "AbC%23dEf", "100%25", "X%2541"}
	tails := []string{"", "?start=1", "#f", "?a=b#c", "?start=a;b", "?x=%zz"}
	maxSeg := 2
	if run.Thorough() {
		maxSeg = 3
		segA = append(segA, "{token}", "JOINCHAT", "%2F", "a%", "x.y")
		hosts = append(hosts, "telegram.me.", "xt.me", "t.me@evil.com", "[::1]", "t.me%2e")
		tails = append(tails, "?", "#", "?%zz")
		schemes = append(schemes, "https:", "https:/", "t.me://", ":")
	}
	var allLinks []string
	var paths [][]string
	var gen func(cur []string, d int)
	gen = func(cur []string, d int) {
		paths = append(paths, append([]string{}, cur...))
		if d == maxSeg {
			return
		}
		for _, s := range segA {
			gen(append(cur, s), d+1)
		}
	}
	gen(nil, 0)

	for _, sc := range schemes {
		for _, h := range hosts {
			for _, p := range ports {
				for _, segs := range paths {
					for _, trail := range []bool{false, true} {
						for _, tail := range tails {
							l := link{sc, h, p, segs, trail, tail}
							s := l.String()
							allLinks = append(allLinks, s)
							var res [2][2]string
							for perm := 0; perm < 2; perm++ {
								sched.MapPerm = perm
								k, v, pan, pm, fr := observe(s)
								res[perm] = [2]string{k, v}
								if pan {
									run.Violation("panic|"+vr.MsgClass(pm)+"|"+fr+"|"+class(l),
										fmt.Sprintf("Resolve(%q) panics: %s in %s", s, pm, fr),
										map[string]any{"Link": s, "Perm": perm})
								}
							}
							st := strict(l)
							run.Eval(s, st || res[0][0] != "err")
							run.Outcome(res[0][0])
							if res[0] != res[1] {
								run.Violation("order|"+class(l), fmt.Sprintf("Resolve(%q) depends on template order: %v vs %v", s, res[0], res[1]),
									map[string]any{"Link": s, "Perm": 1})
							}
							if (res[0][0] == "user" || res[0][0] == "join") && res[0][1] == "" {
								// whatever the shape of the link: an answer without a username / without a token is not an answer
								run.Violation("empty-"+res[0][0]+"|"+class(l), fmt.Sprintf("Resolve(%q) resolves to an empty %s", s, map[string]string{"user": "username", "join": "invite token"}[res[0][0]]),
									map[string]any{"Link": s, "Perm": 0})
							}
							if res[0][0] == "nil-without-error" || strings.HasPrefix(res[0][0], "other:") {
								run.Violation("result-kind|"+res[0][0]+"|"+class(l), fmt.Sprintf("Resolve(%q) returned %s", s, res[0][0]),
									map[string]any{"Link": s, "Perm": 0})
							}
							if st && res[0][0] != "panic" {
								ek, ev := r7(l)
								if ek != res[0][0] || ev != res[0][1] {
									run.Violation("wrong|want-"+ek+"|got-"+res[0][0]+"|"+class(l),
										fmt.Sprintf("Resolve(%q) = (%s,%q), reference says (%s,%q)", s, res[0][0], res[0][1], ek, ev),
										map[string]any{"Link": s, "Perm": 0})
								}
							}
							if run.Evals()%50000 == 1 {
								run.Sample(map[string]any{"link": s, "strict": st, "got": res[0]})
							}
						}
					}
				}
			}
		}
	}
	sched.MapPerm = 0
	// the statement gives one mapping for a Telegram-owned host "written with an http(s) scheme ..., or with no
	// scheme at all": whatever a path resolves to with https:// it resolves to without a scheme and with http://
	// (this also holds the forms whose value the reference does not define - percent-escapes, spaces - to one
	// reading of them instead of two)
	nSchemeCmp := 0
	for _, h := range reserved {
		for _, segs := range paths {
			for _, trail := range []bool{false, true} {
				for _, tail := range tails {
					base := link{"https://", h, "", segs, trail, tail}
					bk, bv, _, _, _ := observe(base.String())
					for _, sc := range []string{"", "http://"} {
						l := link{sc, h, "", segs, trail, tail}
						if sc == "" && len(segs) == 0 && !trail {
							continue // a bare host without a scheme has no path at all
						}
						k, v, _, _, _ := observe(l.String())
						nSchemeCmp++
						if k != bk || v != bv {
							run.Violation("scheme-dependent|"+class(l), fmt.Sprintf("Resolve(%q) = (%s,%q) but Resolve(%q) = (%s,%q)", l.String(), k, v, base.String(), bk, bv),
								map[string]any{"Link": l.String(), "Perm": 0})
						}
					}
				}
			}
		}
	}
	run.Set("scheme_independence_comparisons", nSchemeCmp)
	// history independence: the same links resolved again in reverse order must give the same answers (a result
	// that depends on what was resolved before - a cache under too small a key, a reused buffer - shows up here)
	first := make(map[string][2]string, len(allLinks))
	for _, s := range allLinks {
		k, v, _, _, _ := observe(s)
		first[s] = [2]string{k, v}
	}
	for i := len(allLinks) - 1; i >= 0; i-- {
		s := allLinks[i]
		k, v, _, _, _ := observe(s)
		if first[s] != [2]string{k, v} {
			run.Violation("history-dependent|"+first[s][0]+"->"+k, fmt.Sprintf("Resolve(%q) gave (%s,%q) in one order of calls and (%s,%q) in another", s, first[s][0], first[s][1], k, v), map[string]any{"Link": s, "Perm": 0})
			break
		}
	}
	run.Set("reverse_order_pass", len(allLinks))
	run.Set("alphabet", map[string]any{"schemes": schemes, "hosts": hosts, "ports": ports, "segments": segA, "max_segments": maxSeg, "tails": tails})
	freepass.Run(run, run.ID, freepass.Rounds(run))
	run.Finish()
}
