// C01 — TL codec round-trip over the shape alphabet, for every registered constructor.
package main

import (
	"bytes"
	"crypto/sha1"
	"fmt"
	"reflect"
	"strings"

	"github.com/xelaj/mtproto/internal/encoding/tl"
	"github.com/xelaj/mtproto/internal/mtproto/messages"
	"github.com/xelaj/mtproto/internal/mtproto/objects"
	"github.com/xelaj/mtproto/zverif/freepass"
	"github.com/xelaj/mtproto/zverif/tlx"
	"github.com/xelaj/mtproto/zverif/vr"
)

func shapeClass(c tlx.Case) string {
	s := c.Shape
	// collapse concrete constructor names of substituted objects: the class is "some implementer"
	if strings.HasPrefix(s, "iface:") || strings.HasPrefix(s, "obj:") {
		return s[:strings.IndexByte(s, ':')]
	}
	return s
}

func main() {
	run := vr.New("C01", "exploration")
	defer run.Recover()
	freepass.MaybeReplay(run)
	run.Rule("for every registered constructor: two base values (all fields non-zero / only mandatory fields) and every assignment with <=k field deviations over the shape alphabet (boundary ints/longs/doubles, string and bytes lengths {0..5,252..257,65535,65536}, vector sizes {nil,0,1,2,3}, 128/256-bit integers with leading zero bytes, every enum member, every implementer of every interface-typed field) plus the full zero/non-zero product of every shared flag-bit group; a case is non-trivial when it has at least one deviation and the encoder accepted it")
	run.Assume("equality normalises only: nil and empty slice are the same vector, big integers compare by value, doubles bitwise")
	k := 1
	if run.Thorough() {
		k = 2
	}
	reg := tlx.Load()
	g := &tlx.Gen{R: reg}
	if run.ReplayPath != "" {
		var c struct{ ID string }
		run.LoadReplay(&c)
		name := strings.SplitN(c.ID, "|", 2)[0]
		for _, e := range reg.Entries {
			if e.Name() == name {
				g.Cases(e, 2, func(cs tlx.Case) {
					if cs.ID == c.ID {
						fmt.Printf("replaying %s\n", cs.ID)
						checkCase(run, e, cs)
					}
				})
			}
		}
		run.Finish()
	}
	structs, enums, other, unbuildable := 0, 0, 0, 0
	for _, e := range reg.Entries {
		switch {
		case e.Enum:
			enums++
			checkEnum(run, e)
		case e.IsStruct():
			structs++
			baseBad := false
			if !g.Cases(e, k, func(c tlx.Case) {
				if baseBad {
					return
				}
				before := run.Violations() + run.KnownHits()
				checkCase(run, e, c)
				if c.Devs == 0 && run.Violations()+run.KnownHits() > before {
					baseBad = true
				}
			}) {
				unbuildable++
				run.Violation(e.Name()+"|unbuildable", "no value of "+e.Name()+" can be built from registered constructors (a mandatory field has no encodable value)", map[string]any{"ID": e.Name()})
			}
		default:
			other++
			checkSpecial(run, e)
		}
	}
	// gzip_packed around big objects: the unpacked stream is longer than any single chunk the decompressor or
	// the reader hands out (32 KiB windows), so it has to be collected over many reads
	for _, e := range reg.Entries {
		if !e.IsStruct() || e.Name() == "objects.GzipPacked" || reg.ByCRC[0x3072cfa1] == nil {
			continue
		}
		st := e.Type.Elem()
		fi := -1
		for i := 0; i < st.NumField(); i++ {
			f := st.Field(i)
			if tg := tlx.ParseTag(f); f.PkgPath == "" && !tg.Has && f.Type.Kind() == reflect.Slice && f.Type.Elem().Kind() == reflect.Uint8 {
				fi = i
				break
			}
		}
		if fi < 0 {
			continue
		}
		for _, n := range []int{32700, 32768, 40000, 65536, 200000} {
			v, ok := g.Build(e.Type, 2, false)
			if !ok {
				break
			}
			b := make([]byte, n)
			for i := range b {
				b[i] = byte(i*131 + i/251) // hardly compressible
			}
			v.Elem().Field(fi).Set(reflect.ValueOf(b).Convert(st.Field(fi).Type))
			gz := &objects.GzipPacked{Obj: v.Interface().(tl.Object)}
			checkCase(run, reg.ByCRC[0x3072cfa1], tlx.Case{ID: fmt.Sprintf("objects.GzipPacked|around %s with a %d-byte field", e.Name(), n), Field: "Obj", Shape: fmt.Sprintf("big%d", n), V: reflect.ValueOf(gz), Devs: 1})
		}
		break // one carrier type is enough: the size of the stream is what matters
	}
	// history independence: every case encoded and decoded again, entries in reverse order; bytes and decoded
	// value must be what the first pass saw (a per-type layout cache, a pooled buffer, a memoised conversion
	// keyed too coarsely would make the answer depend on what was processed before)
	reverse := 0
	for i := len(reg.Entries) - 1; i >= 0; i-- {
		e := reg.Entries[i]
		if !e.IsStruct() {
			continue
		}
		var cs []tlx.Case
		g.Cases(e, 1, func(c tlx.Case) { cs = append(cs, c) })
		for j := len(cs) - 1; j >= 0; j-- {
			c := cs[j]
			h, seen := firstBytes[c.ID]
			if !seen {
				continue
			}
			reverse++
			var b []byte
			var err error
			if p, _, _ := vr.Try(func() { b, err = tl.Marshal(c.V.Interface()) }); p || err != nil || sha1.Sum(b) != h {
				run.Violation(e.Name()+"|history-dependent-encoding", c.ID+": serialising the same value gives different bytes after a different history of calls", map[string]any{"ID": c.ID})
				break
			}
			var obj tl.Object
			if p, _, _ := vr.Try(func() { obj, err = tl.DecodeUnknownObject(b) }); p || err != nil {
				run.Violation(e.Name()+"|history-dependent-decoding", c.ID+": bytes that decoded in the first pass do not decode in the second", map[string]any{"ID": c.ID})
				break
			} else if ok, _ := tlx.Equal(tlx.Normalize(c.V), reflect.ValueOf(obj), ""); !ok {
				run.Violation(e.Name()+"|history-dependent-decoding", c.ID+": decoded value differs in the second pass", map[string]any{"ID": c.ID})
				break
			}
		}
	}
	run.Set("reverse_order_pass_cases", reverse)
	run.Set("registered", map[string]int{"structs": structs, "enum_members": enums, "hand_written_other": other, "unbuildable": unbuildable})
	run.Set("deviation_bound_k", k)
	freepass.Run(run, run.ID, freepass.Rounds(run))
	run.Finish()
}

var sampled = 0

// firstBytes: digest of the encoding of every case that encoded cleanly in the first pass
var firstBytes = map[string][20]byte{}

func checkCase(run *vr.Run, e *tlx.Entry, c tlx.Case) {
	rep := map[string]any{"ID": c.ID}
	run.Begin(e.Name(), c.ID, rep)
	defer run.End()
	site := func(kind string) string {
		if c.Devs == 0 {
			return e.Name() + "|base|" + kind
		}
		return e.Name() + "|" + c.Field + "|" + shapeClass(c) + "|" + kind
	}
	v := c.V
	encodable := tlx.Encodable(v)
	want := tlx.Normalize(v)
	var b1, b2 []byte
	var err error
	p, pm, fr := vr.Try(func() { b1, err = tl.Marshal(v.Interface()) })
	if p {
		run.Eval(c.ID, false)
		run.Violation(site("encode-panic|"+vr.MsgClass(pm)+"|"+fr), c.ID+": Marshal panics: "+pm, rep)
		return
	}
	if err != nil {
		run.Eval(c.ID, false)
		if !encodable {
			return // a nil object in a mandatory position or in a present flag group cannot be carried: refusing is right
		}
		run.Violation(site("encode-error|"+vr.MsgClass(err.Error())), c.ID+": Marshal error: "+err.Error(), rep)
		return
	}
	if !encodable {
		run.Eval(c.ID, false)
		run.Violation(site("encode-accepts-nil-member"), c.ID+": a nil object inside a present flag group (or a mandatory nil) was serialised instead of being refused", rep)
		return
	}
	run.Eval(c.ID, c.Devs > 0)
	if sampled < 3 && c.Devs > 0 {
		sampled++
		run.Sample(map[string]any{"case": c.ID, "bytes": len(b1)})
	}
	firstBytes[c.ID] = sha1.Sum(b1)
	b2, err = tl.Marshal(v.Interface())
	if err != nil || !bytes.Equal(b1, b2) {
		run.Violation(site("encode-nondeterministic"), c.ID+": serialising twice gives different bytes", rep)
	}
	// (a) naming the expected type
	fresh := reflect.New(e.Type.Elem())
	p, pm, fr = vr.Try(func() { err = tl.Decode(b1, fresh.Interface()) })
	switch {
	case p:
		run.Violation(site("decode-named-panic|"+vr.MsgClass(pm)+"|"+fr), c.ID+": Decode panics: "+pm, rep)
	case err != nil:
		run.Violation(site("decode-named-error"), fmt.Sprintf("%s: Decode of own encoding (%d bytes) fails: %v", c.ID, len(b1), err), rep)
	default:
		if ok, path := tlx.Equal(want, fresh, ""); !ok {
			run.Violation(site("decode-named-differs"), c.ID+": decoded value differs at "+path, rep)
		}
	}
	// (b) decoder chooses the type
	var obj tl.Object
	p, pm, fr = vr.Try(func() { obj, err = tl.DecodeUnknownObject(b1) })
	switch {
	case p:
		run.Violation(site("decode-unknown-panic|"+vr.MsgClass(pm)+"|"+fr), c.ID+": DecodeUnknownObject panics: "+pm, rep)
	case err != nil:
		run.Violation(site("decode-unknown-error"), fmt.Sprintf("%s: DecodeUnknownObject of own encoding fails: %v", c.ID, err), rep)
	default:
		if ok, path := tlx.Equal(want, reflect.ValueOf(obj), ""); !ok {
			run.Violation(site("decode-unknown-differs"), c.ID+": decoded value differs at "+path, rep)
		} else if b3, err := tl.Marshal(obj); err != nil || !bytes.Equal(b3, b1) {
			run.Violation(site("reencode-differs"), c.ID+": re-encoding the decoded value gives different bytes", rep)
		}
	}
}

func checkEnum(run *vr.Run, e *tlx.Entry) {
	id := fmt.Sprintf("%s|enum-member", e.Name())
	rep := map[string]any{"ID": id}
	v := reflect.ValueOf(e.CRC).Convert(e.Type)
	var b []byte
	var err error
	p, pm, fr := vr.Try(func() { b, err = tl.Marshal(v.Interface()) })
	run.Eval(id, !p && err == nil)
	if p || err != nil {
		run.Violation("enum|encode|"+vr.MsgClass(pm+fmt.Sprint(err))+"|"+fr, id+": cannot encode enum member", rep)
		return
	}
	var obj tl.Object
	p, pm, fr = vr.Try(func() { obj, err = tl.DecodeUnknownObject(b) })
	switch {
	case p:
		run.Violation("enum|decode-unknown-panic|"+vr.MsgClass(pm)+"|"+fr, id+": DecodeUnknownObject panics on an enum constructor: "+pm, rep)
	case err != nil:
		run.Violation("enum|decode-unknown-error", id+": "+err.Error(), rep)
	default:
		if ok, _ := tlx.Equal(v, reflect.ValueOf(obj), ""); !ok {
			run.Violation("enum|decode-unknown-differs", fmt.Sprintf("%s: got %T %v", id, obj, obj), rep)
		}
	}
	fresh := reflect.New(e.Type)
	p, pm, fr = vr.Try(func() { err = tl.Decode(b, fresh.Interface()) })
	switch {
	case p:
		run.Violation("enum|decode-named-panic|"+vr.MsgClass(pm)+"|"+fr, id+": Decode into the named enum type panics: "+pm, rep)
	case err != nil:
		run.Violation("enum|decode-named-error", id+": Decode into the named enum type: "+err.Error(), rep)
	default:
		if fresh.Elem().Uint() != uint64(e.CRC) {
			run.Violation("enum|decode-named-differs", id, rep)
		}
	}
}

// checkSpecial: hand-written non-struct registrations (MessageContainer).
func checkSpecial(run *vr.Run, e *tlx.Entry) {
	mc, ok := reflect.New(e.Type.Elem()).Interface().(*objects.MessageContainer)
	if !ok {
		run.Violation(e.Name()+"|special-type-not-covered", "registered hand-written type "+e.Name()+" has no round-trip driver in the harness", nil)
		return
	}
	_ = mc
	for n := 0; n <= 3; n++ {
		for _, bodyLen := range []int{0, 4, 12, 256} {
			id := fmt.Sprintf("objects.MessageContainer|items=%d,bodylen=%d", n, bodyLen)
			rep := map[string]any{"ID": id}
			var c objects.MessageContainer
			for i := 0; i < n; i++ {
				body := make([]byte, bodyLen)
				for j := range body {
					body[j] = byte(i*31 + j)
				}
				c = append(c, &messages.Encrypted{MsgID: int64(0x5f5e100000000001) + int64(i*4), SeqNo: int32(2*i + 1), Msg: body})
			}
			var b []byte
			var err error
			p, pm, fr := vr.Try(func() { b, err = tl.Marshal(&c) })
			run.Eval(id, !p && err == nil && n > 0)
			if p || err != nil {
				run.Violation("objects.MessageContainer|encode|"+vr.MsgClass(pm+fmt.Sprint(err))+"|"+fr, id+": cannot encode", rep)
				continue
			}
			for name, dec := range map[string]func() (tl.Object, error){
				"unknown": func() (tl.Object, error) { return tl.DecodeUnknownObject(b) },
				"named": func() (tl.Object, error) {
					var out objects.MessageContainer
					err := tl.Decode(b, &out)
					return &out, err
				},
			} {
				var obj tl.Object
				p, pm, fr = vr.Try(func() { obj, err = dec() })
				if p {
					run.Violation("objects.MessageContainer|decode-"+name+"-panic|"+vr.MsgClass(pm)+"|"+fr, id+": "+pm, rep)
					continue
				}
				if err != nil {
					run.Violation("objects.MessageContainer|decode-"+name+"-error", id+": "+err.Error(), rep)
					continue
				}
				got, ok := obj.(*objects.MessageContainer)
				same := ok && len(*got) == len(c)
				for i := 0; same && i < len(c); i++ {
					same = (*got)[i] != nil && (*got)[i].MsgID == c[i].MsgID && (*got)[i].SeqNo == c[i].SeqNo && bytes.Equal((*got)[i].Msg, c[i].Msg)
				}
				if !same {
					run.Violation("objects.MessageContainer|decode-"+name+"-differs", id+": decoded container differs from the original", rep)
				}
			}
		}
	}
}
