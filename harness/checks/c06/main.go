// C06 — key exchange with any conformant server ends in a shared auth key and salt.
package main

import (
	"bytes"
	"crypto/sha1"
	"fmt"
	"math/big"
	"os"
	"sort"
	"strings"

	"github.com/xelaj/mtproto/zverif/enum"
	"github.com/xelaj/mtproto/zverif/freepass"
	"github.com/xelaj/mtproto/zverif/hs"
	"github.com/xelaj/mtproto/zverif/ref/authsrv"
	"github.com/xelaj/mtproto/zverif/ref/tlw"
	"github.com/xelaj/mtproto/zverif/sched"
	"github.com/xelaj/mtproto/zverif/sess"
	"github.com/xelaj/mtproto/zverif/vr"
	"github.com/xelaj/mtproto/zverif/vrand"
)

type classTable map[string]map[int]int // field -> leading zero bytes -> runs

func (t classTable) add(field string, lz int) {
	if t[field] == nil {
		t[field] = map[int]int{}
	}
	if lz > 2 {
		lz = 2
	}
	t[field][lz]++
}

type runner struct {
	run   *vr.Run
	table classTable
	n     int
}

// exchange runs one complete key exchange + first encrypted request on the real
// client (default schedule under the controlled scheduler) and judges it.
func (r *runner) exchange(id string, cfg authsrv.Config, seed uint64, force [][]byte, class string) *sess.World {
	sc := hs.Scenario(id, cfg, seed)
	if force != nil {
		sc.Setup = func(*sess.World) { vrand.Force("bytes", force...) }
	}
	w := sess.Run(sc, nil, false)
	r.n++
	rep := map[string]any{"id": id, "seed": seed, "class": class}
	r.run.Eval(id, w.Auth != nil && w.Auth.Done)
	a := w.Auth
	// classification of this run
	if len(a.Nonce) == 16 {
		r.table.add("nonce", hs.LZ(a.Nonce))
	}
	if len(a.NewNonce) == 32 {
		r.table.add("new_nonce", hs.LZ(a.NewNonce))
		r.table.add("rsa_ciphertext", a.RSAClass)
	}
	r.table.add("server_nonce", hs.LZ(cfg.ServerNonce))
	ga := authsrv.Fixed(new(big.Int).Exp(big.NewInt(int64(cfg.G)), cfg.A, cfg.Prime), 256)
	r.table.add("g_a", hs.LZ(ga))
	if a.GB != nil {
		r.table.add("g_b", hs.LZ(authsrv.Fixed(a.GB, 256)))
		r.table.add("auth_key(g^ab)", hs.LZ(a.AuthKey))
		aux := sha1.Sum(a.AuthKey)
		h := sha1.Sum(append(append(append([]byte{}, a.NewNonce...), 1), aux[:8]...))
		r.table.add("new_nonce_hash1", hs.LZ(h[4:20]))
	}
	site := func(kind string) string { return kind + "|" + class }
	switch {
	case w.ConnPanic != "":
		r.run.Violation(site("panic|"+vr.MsgClass(w.ConnPanic)+"|"+w.ConnPanicFrame), fmt.Sprintf("%s: CreateConnection panics: %s (in %s); server saw %v", id, w.ConnPanic, w.ConnPanicFrame, a.Steps), rep)
		return w
	case w.Fatal != nil:
		r.run.Violation(site("fatal|"+vr.MsgClass(w.Fatal.Msg)+"|"+w.Fatal.Frame), fmt.Sprintf("%s: goroutine %s panics: %s", id, w.Fatal.Thread, w.Fatal.Msg), rep)
		return w
	case w.ConnErr != nil:
		r.run.Violation(site("error|"+vr.MsgClass(w.ConnErr.Error())), fmt.Sprintf("%s: CreateConnection fails against a conformant server: %v; server: %v %v", id, w.ConnErr, a.Steps, a.Problems), rep)
		return w
	case !w.ConnReturned:
		why := "no answer"
		if len(a.Problems) > 0 {
			why = a.Problems[len(a.Problems)-1]
		}
		r.run.Violation(site("never-completes|"+vr.MsgClass(why)), fmt.Sprintf("%s: the exchange never completes: the conformant server rejected a client message: %s (steps %v; blocked %v)", id, why, a.Steps, w.Stalled()), rep)
		return w
	}
	if !a.Done {
		r.run.Violation(site("client-thinks-done"), id+": CreateConnection returned nil but the server never sent dh_gen_ok", rep)
		return w
	}
	if !bytes.Equal(w.M.GetAuthKey(), a.AuthKey) {
		r.run.Violation(site(fmt.Sprintf("auth-key-differs|client-len=%d", len(w.M.GetAuthKey()))), fmt.Sprintf("%s: client holds a %d-byte key that differs from the server's 256-byte g^ab", id, len(w.M.GetAuthKey())), rep)
	}
	if w.M.GetServerSalt() != a.Salt {
		r.run.Violation(site("salt-differs"), fmt.Sprintf("%s: client salt %#x, server salt %#x", id, uint64(w.M.GetServerSalt()), uint64(a.Salt)), rep)
	}
	if n := len(w.Store.Stores); n == 0 {
		r.run.Violation(site("session-not-stored"), id+": the session was never stored", rep)
	} else if st := w.Store.Stores[0]; st.Salt != a.Salt && bytes.Equal(st.Key, a.AuthKey) {
		r.run.Violation(site("initial-salt-differs"), fmt.Sprintf("%s: after the exchange the client holds salt %#x, the server's initial salt is %#x (new_nonce[0:8] xor server_nonce[0:8]); the first request is rejected with bad_server_salt", id, uint64(st.Salt), uint64(a.Salt)), rep)
	} else if !bytes.Equal(st.Key, a.AuthKey) || !bytes.Equal(st.Hash, a.KeyID) || st.Salt != a.Salt || st.Hostname != sess.Addr {
		r.run.Violation(site("stored-session-differs"), fmt.Sprintf("%s: stored session (key %d bytes, id %x, salt %#x, host %q) differs from the server's values (id %x, salt %#x)", id, len(st.Key), st.Hash, uint64(st.Salt), st.Hostname, a.KeyID, uint64(a.Salt)), rep)
	}
	for _, res := range w.Results {
		if v := sess.CheckResult(res); v != "" {
			why := ""
			if len(w.Srv.Problems) > 0 {
				why = w.Srv.Problems[0]
			}
			r.run.Violation(site("first-request|"+v), fmt.Sprintf("%s: the first encrypted request: %s; %s; blocked %v", id, v, why, w.Stalled()), rep)
		}
	}
	for _, p := range append(append([]string{}, a.Problems...), w.Srv.Problems...) {
		r.run.Violation(site("server-problem|"+vr.MsgClass(p)), id+": "+p, rep)
	}
	return w
}

func nextPrime(n uint64) uint64 {
	for {
		if new(big.Int).SetUint64(n).ProbablyPrime(20) {
			return n
		}
		n++
	}
}

func main() {
	run := vr.New("C06", "exploration")
	defer run.Recover()
	freepass.MaybeReplay(run)
	sched.OnSpin = func(frame string) {
		run.Violation("hangs|cpu-spin|"+frame, "the key exchange never completes: a client thread has been computing inside "+frame+" for 120 s without reaching any synchronisation point (a loop that does not end); the exploration stops here", map[string]any{"fault": "cpu-spin", "frame": frame})
		run.Truncated("stopped at a non-terminating computation in the library")
		run.Finish()
	}
	run.Rule("complete key exchanges of the real client against reference server R3 (default schedule under the controlled scheduler), followed by the first encrypted request: (a) server alphabets pq(4) x RSA key(3) x group(2) x server_nonce leading-zero class(3) x g_a class(2) x inner-data padding(16) x fingerprint list(3) at <=2 deviations; (b) every client seed in [0,K) of the owned random stream; (c) each of nonce, new_nonce, RSA ciphertext, auth key g^ab, new_nonce_hash1 forced to 1 and 2 leading zero bytes, and the initial salt forced to 1, 2 and 8 leading zero bytes (nonces sharing a prefix) (client draws forced through the owned seam; server secret chosen adaptively after learning g_b); g_b forced to 1 and 2 leading zero bytes in both groups (the client's exponent forced through the owned seam); a committed seed table for g_b; non-trivial = the exchange reached dh_gen_ok")
	run.Assume("reference server R3 (harness/ref/authsrv) with committed RSA-2048 test keys; the client's random draws (nonces, DH exponent, Pollard-rho draws, padding) come from the owned deterministic stream", "leading-zero class coverage is measured and reported (class table), not assumed")
	r := &runner{run: run, table: classTable{}}
	base := hs.Base()
	if n := os.Getenv("VERIF_C06_SCAN"); n != "" {
		// development aid: print seeds whose g_b has leading zero bytes (to refresh seedTableGB)
		var max uint64
		fmt.Sscan(n, &max)
		for seed := uint64(0); seed < max; seed++ {
			w := sess.Run(hs.Scenario("scan", base, seed), nil, false)
			if w.Auth != nil && w.Auth.GB != nil {
				if lz := hs.LZ(authsrv.Fixed(w.Auth.GB, 256)); lz > 0 {
					fmt.Printf("seed %d: g_b lz=%d\n", seed, lz)
				}
			}
		}
		os.Exit(0)
	}

	// ---- (a) server alphabets
	p31a, p31b := nextPrime(1<<30+12345), nextPrime(1<<30+987654)
	big1, big2 := nextPrime(1<<32-60000), nextPrime(1<<32-30000)
	pqs := [][2]uint64{{base.P, base.Q}, {1229739323, 1402015859}, {p31a, p31b}, {big1, big2}, {3, nextPrime(1 << 31)}, {nextPrime(1 << 20), nextPrime(1<<20 + 5000)}}
	groups := []struct {
		p *big.Int
		g int32
	}{{hs.HexBig(hs.TelegramPrime), 3}, {hs.HexBig(hs.RFC3526Group14), 2}}
	findA := func(prime *big.Int, g int32, want int) *big.Int {
		a := new(big.Int).Set(hs.DefaultA())
		v := new(big.Int).Exp(big.NewInt(int64(g)), a, prime)
		for i := 0; i < 300000; i++ {
			if hs.LZ(authsrv.Fixed(v, 256)) == want {
				return a
			}
			a.Add(a, big.NewInt(1))
			v.Mul(v, big.NewInt(int64(g))).Mod(v, prime)
		}
		return nil
	}
	fpl := []func(fp int64) []int64{nil, func(fp int64) []int64 { return []int64{0x1234, fp} }, func(fp int64) []int64 { return []int64{fp, -77} }}
	sizes := []int{len(pqs), 3, len(groups), 3, 2, 16, len(fpl)}
	k := 2
	enum.All(sizes, k, func(ix []int) {
		// the client's factorisation of a 62..64-bit pq costs ~0.3 s: large products are combined only with
		// the dimensions that touch the same code (none), i.e. explored as single deviations
		if ix[0] != 0 {
			others := 0
			for _, v := range ix[1:] {
				if v != 0 {
					others++
				}
			}
			if others > 0 {
				return
			}
		}
		cfg := base
		cfg.P, cfg.Q = pqs[ix[0]][0], pqs[ix[0]][1]
		if cfg.P > cfg.Q {
			cfg.P, cfg.Q = cfg.Q, cfg.P
		}
		cfg.Key = hs.Key(ix[1])
		cfg.Prime, cfg.G = groups[ix[2]].p, groups[ix[2]].g
		cfg.ServerNonce = hs.Nonce(ix[3], 0)
		if ix[4] == 1 {
			cfg.A = findA(cfg.Prime, cfg.G, 1)
		}
		cfg.Pad = ix[5] // authsrv falls back to the unique legal padding when this one does not complete a block
		cfg.Fingerprints = fpl[ix[6]]
		var dev []string
		for i, v := range ix {
			if v != 0 {
				dev = append(dev, fmt.Sprintf("%s#%d", []string{"pq", "rsa-key", "group", "server_nonce-lz", "g_a-lz", "pad", "fingerprints"}[i], v))
			}
		}
		r.exchange("server "+fmt.Sprint(ix), cfg, 1, nil, "server|"+strings.Join(dev, ","))
	})
	// padding classes are only distinct when the legal padding changes; force each residue by varying server_time digits is
	// not possible, so additionally run every padding value with the other prime (different inner-data length)
	// ---- (b) seeds
	K := uint64(64)
	if run.Thorough() {
		K = 2048
	}
	for seed := uint64(0); seed < K; seed++ {
		r.exchange(fmt.Sprintf("seed %d", seed), base, seed, nil, "seed")
	}
	// committed table of seeds found (by an earlier scan) to give g_b a leading zero byte; re-validated by the class table
	for _, seed := range seedTableGB {
		r.exchange(fmt.Sprintf("seed %d (table: g_b)", seed), base, seed, nil, "seed-table-g_b")
	}
	// ---- (c) forced corners
	learn := sess.Run(hs.Scenario("learn", base, 7), nil, false)
	if learn.Auth == nil || learn.Auth.GB == nil {
		// the default exchange itself fails: already reported above
		finish(run, r)
	}
	nonce0, newNonce0 := learn.Auth.Nonce, learn.Auth.NewNonce
	for _, lz := range []int{1, 2} {
		n := append(make([]byte, lz), nonce0[lz:]...)
		r.exchange(fmt.Sprintf("forced nonce lz=%d", lz), base, 7, [][]byte{n, newNonce0}, fmt.Sprintf("forced|nonce-lz%d", lz))
		nn := append(make([]byte, lz), newNonce0[lz:]...)
		r.exchange(fmt.Sprintf("forced new_nonce lz=%d", lz), base, 7, [][]byte{nonce0, nn}, fmt.Sprintf("forced|new_nonce-lz%d", lz))
	}
	// g_b with 1 and 2 leading zero bytes (its TL string is 255 / 254 bytes long: 254 is the first length that
	// needs the long string header): the client's secret exponent b is forced through the owned seam (the
	// 256-byte draw of crypto/rand.Int for the bound 2^2048), found by deterministic upward search
	for _, g := range []struct {
		p *big.Int
		g int64
		n string
	}{{hs.HexBig(hs.TelegramPrime), 3, "telegram"}, {hs.HexBig(hs.RFC3526Group14), 2, "rfc3526-14"}} {
		for _, lz := range []int{1, 2} {
			b := big.NewInt(70000)
			gb := big.NewInt(g.g)
			found := false
			for i := 0; i < 3000000; i++ {
				b.Add(b, big.NewInt(1))
				if hs.LZ(authsrv.Fixed(new(big.Int).Exp(gb, b, g.p), 256)) == lz {
					found = true
					break
				}
			}
			if !found {
				run.Add("forced_gb_search_exhausted", 1)
				continue
			}
			cfg := base
			cfg.Prime, cfg.G = g.p, int32(g.g)
			wx := r.exchange(fmt.Sprintf("forced g_b lz=%d (%s group, b=%s)", lz, g.n, b), cfg, 7, [][]byte{nonce0, newNonce0, authsrv.Fixed(b, 256)}, fmt.Sprintf("forced|g_b-lz%d", lz))
			if wx.Auth == nil || wx.Auth.GB == nil || hs.LZ(authsrv.Fixed(wx.Auth.GB, 256)) != lz {
				// the exponent was not drawn the way the seam expects (length of the draw changed): the corner
				// was not reached in this run; the class table shows it
				run.Add("forced_gb_corner_not_reached", 1)
			}
		}
	}
	// new_nonce and server_nonce beginning with the same byte(s): the initial salt new_nonce[0:8] xor
	// server_nonce[0:8] then begins with zero bytes although neither nonce does
	for _, n := range []int{1, 2, 8} {
		cfg := base
		cfg.ServerNonce = append([]byte{}, base.ServerNonce...)
		copy(cfg.ServerNonce[:n], newNonce0[:n])
		r.exchange(fmt.Sprintf("forced salt with %d leading zero bytes (nonces share a prefix)", n), cfg, 7, [][]byte{nonce0, newNonce0}, fmt.Sprintf("forced|salt-lz%d", n))
	}
	// RSA ciphertext with a leading zero byte: search new_nonce upward in the reference
	{
		pub := &base.Key.PublicKey
		e := big.NewInt(int64(pub.E))
		nn := new(big.Int).SetBytes(newNonce0)
		found := 0
		for i := 0; i < 200000 && found < 1; i++ {
			cand := authsrv.Fixed(nn, 32)
			w := &tlw.W{}
			w.U32(0x83c95aec).Str(authsrv.Fixed(new(big.Int).Mul(new(big.Int).SetUint64(base.P), new(big.Int).SetUint64(base.Q)), 8)).Str(learn.Auth.PBytes).Str(learn.Auth.QBytes).Raw(nonce0).Raw(base.ServerNonce).Raw(cand)
			h := sha1.Sum(w.B)
			block := make([]byte, 255)
			copy(block, append(h[:], w.B...))
			c := new(big.Int).Exp(new(big.Int).SetBytes(block), e, pub.N)
			if len(c.Bytes()) <= 255 {
				found++
				r.exchange("forced RSA ciphertext lz>=1", base, 7, [][]byte{nonce0, cand}, "forced|rsa-ciphertext-lz1")
			}
			nn.Add(nn, big.NewInt(1))
		}
	}
	// auth key and new_nonce_hash1 with leading zero bytes: the server picks its secret after learning g_b
	gb := learn.Auth.GB
	for _, target := range []string{"auth_key", "hash1"} {
		for _, want := range []int{1, 2} {
			if want == 2 && !run.Thorough() && target == "hash1" {
				continue
			}
			a := new(big.Int).Set(hs.DefaultA())
			v := new(big.Int).Exp(gb, a, base.Prime)
			limit := 3000
			if want == 2 {
				limit = 400000
			}
			for i := 0; i < limit; i++ {
				key := authsrv.Fixed(v, 256)
				hit := false
				if target == "auth_key" {
					hit = hs.LZ(key) == want
				} else {
					aux := sha1.Sum(key)
					h := sha1.Sum(append(append(append([]byte{}, newNonce0...), 1), aux[:8]...))
					hit = hs.LZ(h[4:20]) == want
				}
				if hit {
					cfg := base
					cfg.A = new(big.Int).Set(a)
					r.exchange(fmt.Sprintf("forced %s lz=%d", target, want), cfg, 7, nil, fmt.Sprintf("forced|%s-lz%d", target, want))
					break
				}
				a.Add(a, big.NewInt(1))
				v.Mul(v, gb).Mod(v, base.Prime)
			}
		}
	}
	finish(run, r)
}

// seeds (of the owned stream) for which g_b has a leading zero byte with the default server; found by scanning
var seedTableGB = []uint64{679, 991}

func finish(run *vr.Run, r *runner) {
	tab := map[string]map[string]int{}
	var fields []string
	for f, m := range r.table {
		fields = append(fields, f)
		tab[f] = map[string]int{}
		for lz, n := range m {
			tab[f][fmt.Sprintf("lz%d", lz)] = n
		}
	}
	sort.Strings(fields)
	run.Set("leading_zero_class_table", tab)
	run.Set("exchanges", r.n)
	run.Sample(map[string]any{"server": "pq = two primes just below 2^32, RSA key #1, g_a with one leading zero byte", "client_seed": 1})
	freepass.Run(run, run.ID, freepass.Rounds(run))
	run.Finish()
}
