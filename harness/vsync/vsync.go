// Package vsync replaces "sync" in rewritten repository files. Outside a
// scheduled run every type behaves exactly like its sync counterpart.
package vsync

import (
	"sync"

	"github.com/xelaj/mtproto/zverif/sched"
)

type (
	Once   = sync.Once
	Pool   = sync.Pool
	Map    = sync.Map
	Locker = sync.Locker
)

type Mutex struct{ real sync.Mutex }

func (m *Mutex) Lock() {
	if s := sched.Active(); s != nil {
		s.Lock(m)
		return
	}
	m.real.Lock()
}

func (m *Mutex) Unlock() {
	if s := sched.Active(); s != nil {
		s.Unlock(m)
		return
	}
	m.real.Unlock()
}

type RWMutex struct{ real sync.RWMutex }

func (m *RWMutex) Lock() {
	if s := sched.Active(); s != nil {
		s.WLock(m)
		return
	}
	m.real.Lock()
}

func (m *RWMutex) Unlock() {
	if s := sched.Active(); s != nil {
		s.UnlockNoYield(m)
		return
	}
	m.real.Unlock()
}

func (m *RWMutex) RLock() {
	if s := sched.Active(); s != nil {
		s.RLock(m)
		return
	}
	m.real.RLock()
}

func (m *RWMutex) RUnlock() {
	if s := sched.Active(); s != nil {
		s.RUnlock(m)
		return
	}
	m.real.RUnlock()
}

func (m *RWMutex) RLocker() sync.Locker { return rlocker{m} }

type rlocker struct{ m *RWMutex }

func (r rlocker) Lock()   { r.m.RLock() }
func (r rlocker) Unlock() { r.m.RUnlock() }

type WaitGroup struct{ real sync.WaitGroup }

func (w *WaitGroup) Add(n int) {
	if s := sched.Active(); s != nil {
		s.WGAdd(w, n)
		return
	}
	w.real.Add(n)
}

func (w *WaitGroup) Done() { w.Add(-1) }

func (w *WaitGroup) Wait() {
	if s := sched.Active(); s != nil {
		s.WGWait(w)
		return
	}
	w.real.Wait()
}
