package sched

import (
	"fmt"
	"reflect"
	"sort"
)

// MapPerm, when set outside scheduled runs, chooses the permutation index used
// by OrderKeys/OrderInts (0 = sorted order). Checks that own map order set it.
var MapPerm int

// EnvChoice records an environment choice made by the running thread itself
// (not at a park point): e.g. the iteration order of a map.
func (s *S) EnvChoice(n int, label string) int {
	if n <= 1 {
		return 0
	}
	s.mu.Lock()
	defer s.mu.Unlock()
	if s.aborting {
		return 0
	}
	return s.choose(PEnv, n, 0, label)
}

// NumPerms is the number of orders explored for n keys: all permutations up to
// 3 keys, identity/reverse/rotations above.
func NumPerms(n int) int {
	switch {
	case n <= 1:
		return 1
	case n == 2:
		return 2
	case n == 3:
		return 6
	default:
		return n + 1
	}
}

func permute(n, idx int) []int {
	p := make([]int, n)
	for i := range p {
		p[i] = i
	}
	if idx == 0 || n <= 1 {
		return p
	}
	if n <= 3 {
		// idx-th permutation in lexicographic order
		avail := append([]int{}, p...)
		f := 1
		for i := 2; i < n; i++ {
			f *= i
		}
		out := make([]int, 0, n)
		k := idx
		for i := n - 1; i >= 0; i-- {
			j := k / f
			k %= f
			out = append(out, avail[j])
			avail = append(avail[:j], avail[j+1:]...)
			if i > 0 {
				f /= i
			}
		}
		return out
	}
	if idx == 1 { // reverse
		for i := range p {
			p[i] = n - 1 - i
		}
		return p
	}
	rot := idx - 1 // rotations 1..n-1
	for i := range p {
		p[i] = (i + rot) % n
	}
	return p
}

func orderIndex(n int, label string) int {
	if s := Active(); s != nil {
		return s.EnvChoice(NumPerms(n), label)
	}
	if MapPerm < NumPerms(n) {
		return MapPerm
	}
	return 0
}

// OrderInts returns keys in the order chosen by the explorer (sorted by default).
func OrderInts(keys []int) []int {
	sort.Ints(keys)
	p := permute(len(keys), orderIndex(len(keys), "keys-order"))
	out := make([]int, len(keys))
	for i, j := range p {
		out[i] = keys[j]
	}
	return out
}

// OrderKeys reorders a slice of map keys in place.
func OrderKeys(slice interface{}) {
	v := reflect.ValueOf(slice)
	n := v.Len()
	strs := make([]string, n)
	vals := make([]reflect.Value, n)
	idx := make([]int, n)
	for i := 0; i < n; i++ {
		vals[i] = reflect.New(v.Type().Elem()).Elem()
		vals[i].Set(v.Index(i))
		strs[i] = fmt.Sprint(v.Index(i).Interface())
		idx[i] = i
	}
	sort.Slice(idx, func(a, b int) bool { return strs[idx[a]] < strs[idx[b]] })
	p := permute(n, orderIndex(n, "map-order"))
	for i, j := range p {
		v.Index(i).Set(vals[idx[j]])
	}
}
