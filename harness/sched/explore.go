package sched

import (
	"time"
)

// Exec is what one execution reports back to the explorer.
type Exec struct {
	Points  []Point
	Outcome Outcome
}

type Bounds struct {
	Preemptions int // max preemptions per execution (-1: unbounded)
	EnvDev      int // max environment deviations per execution (-1: unbounded)
	Delays      int // max non-default thread choices per execution (-1: unbounded): delay bounding
	MaxExecs    int64
	Deadline    time.Time
}

type Stats struct {
	Executions int64
	Points     int64
	MaxPoints  int
	Truncated  bool
}

func (s *Stats) Add(o Stats) {
	s.Executions += o.Executions
	s.Points += o.Points
	if o.MaxPoints > s.MaxPoints {
		s.MaxPoints = o.MaxPoints
	}
	s.Truncated = s.Truncated || o.Truncated
}

func Choices(x Exec) []int {
	c := make([]int, len(x.Points))
	for i, p := range x.Points {
		c[i] = p.Chosen
	}
	return c
}

// Children lists the choice prefixes that deviate from execution x at exactly
// one point at or after position from, and whose cost fits the bounds.
func Children(x Exec, from int, b Bounds) [][]int {
	var out [][]int
	choices := Choices(x)
	for i := from; i < len(x.Points); i++ {
		p := x.Points[i]
		for alt := 1; alt < p.N; alt++ {
			pre, env, del := p.Preempt, p.EnvDev, p.Delays
			if p.Kind == PThread {
				del++
				if p.NRun > 0 && alt >= p.NRun {
					pre++
				}
			}
			if p.Kind == PEnv {
				env++
			}
			if (b.Preemptions >= 0 && pre > b.Preemptions) || (b.EnvDev >= 0 && env > b.EnvDev) || (b.Delays >= 0 && del > b.Delays) {
				continue
			}
			np := make([]int, i+1)
			copy(np, choices[:i])
			np[i] = alt
			out = append(out, np)
		}
	}
	return out
}

// Explore is the stateless depth-first search of the brief: run a prefix, then
// defaults to the end; branch on every alternative after the prefix whose cost
// fits the bounds. run must build a fresh world, execute it under the prefix
// and return the recorded points. visit is called once per execution with its
// complete choice list; returning false stops the search.
func Explore(root []int, b Bounds, run func(prefix []int) Exec, visit func(choices []int, x Exec) bool) Stats {
	var st Stats
	stop := false
	var rec func(prefix []int)
	rec = func(prefix []int) {
		if stop {
			return
		}
		if (b.MaxExecs > 0 && st.Executions >= b.MaxExecs) || (!b.Deadline.IsZero() && time.Now().After(b.Deadline)) {
			st.Truncated = true
			stop = true
			return
		}
		x := run(prefix)
		st.Executions++
		st.Points += int64(len(x.Points))
		if len(x.Points) > st.MaxPoints {
			st.MaxPoints = len(x.Points)
		}
		if !visit(Choices(x), x) {
			stop = true
			return
		}
		for _, np := range Children(x, len(prefix), b) {
			rec(np)
			if stop {
				return
			}
		}
	}
	rec(root)
	return st
}
