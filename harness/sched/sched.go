// Package sched is the controlled scheduler (engine E2): every registered
// thread runs only when the scheduler selects it; threads park at visible
// operations (lock, channel send/receive, select, spawn, environment wait).
// The package depends on the standard library only, so that rewritten
// repository code may import it.
package sched

import (
	"fmt"
	"os"
	"reflect"
	"regexp"
	"runtime"
	"strings"
	"sync"
	"sync/atomic"
	"time"
)

type OpKind int

const (
	OpNone OpKind = iota
	OpYield
	OpLock
	OpRLock
	OpSend
	OpRecv
	OpSelect
	OpWait // environment wait (reader parked in Conn.Read)
	OpWGWait
	OpCond // harness thread waiting for a condition on the world
)

func (k OpKind) String() string {
	return [...]string{"none", "yield", "lock", "rlock", "send", "recv", "select", "wait", "wgwait", "cond"}[k]
}

type op struct {
	kind  OpKind
	obj   interface{}   // mutex pointer / channel / env object
	chans []interface{} // select
	name  string
	cond  func() bool
}

type Thread struct {
	ID      int
	Name    string
	wake    chan struct{}
	pending op
	done    bool
	selIdx  int // result of a select
	daemon  bool
	steps   int
}

type BlockedInfo struct {
	Thread   string
	Kind     OpKind
	Desc     string
	ElemType string
}

type Fatal struct {
	Thread string
	Msg    string
	Frame  string
}

// Env is consulted when a thread parked in Wait(obj) may be resumed: it returns
// the number of alternatives currently available (0 = not enabled) and applies
// the chosen one before the thread resumes.
type Env interface {
	Alternatives(obj interface{}) int
	Apply(obj interface{}, alt int)
}

type PointKind uint8

const (
	PThread PointKind = iota
	PEnv
)

type Point struct {
	Kind    PointKind
	N       int // number of alternatives
	Chosen  int // chosen index
	NRun    int // for PThread: leading alternatives that belong to the running thread (0: it is blocked); choosing alt >= NRun > 0 is a preemption
	Preempt int // cumulative preemptions before this point
	EnvDev  int // cumulative environment deviations before this point
	Delays  int // cumulative non-default thread choices before this point
	Label   string
}

type Outcome int

const (
	Quiescent Outcome = iota
	Deadlock
	FatalPanic
	StepLimit
)

func (o Outcome) String() string {
	return [...]string{"all-threads-done", "idle(no thread enabled)", "fatal", "steplimit"}[o]
}

type S struct {
	// ClockFrozen: every reading of the clock returns the same instant (a coarse clock read twice within one
	// tick); otherwise each reading is 1 microsecond later than the previous one.
	ClockFrozen bool
	mu          sync.Mutex
	threads     []*Thread
	current     *Thread
	awake       int
	idle        chan struct{}
	aborting    bool
	runaway     bool
	fatal       *Fatal

	mutexOwner map[interface{}]*Thread
	rwWriter   map[interface{}]*Thread
	rwReaders  map[interface{}]int
	wgCount    map[interface{}]int
	rendezvous map[interface{}]*Thread // channel -> receiver released for it

	Env Env
	// UnlockYields: releasing a plain mutex is a scheduling point (RW locks of the small tables are not).
	UnlockYields bool

	prefix   []int
	Points   []Point
	preempt  int
	delays   int
	envDev   int
	Trace    []string // when Tracing
	Tracing  bool
	MaxSteps int

	clock    int64
	watchdog *time.Timer
	wg       sync.WaitGroup

	tickers []*VTicker

	Blocked []BlockedInfo // threads still pending when the execution ended
	Data    interface{}   // harness payload
}

var active atomic.Pointer[S]

// Active returns the scheduler controlling this process, or nil.
func Active() *S { return active.Load() }

func New(prefix []int) *S {
	return &S{idle: make(chan struct{}, 1), prefix: prefix,
		mutexOwner: map[interface{}]*Thread{}, rwWriter: map[interface{}]*Thread{},
		rwReaders: map[interface{}]int{}, wgCount: map[interface{}]int{},
		rendezvous: map[interface{}]*Thread{}, MaxSteps: 20000, clock: 1600000000 * 1e9}
}

type abortT struct{}

var abortSentinel = abortT{}

// ---- thread lifecycle -------------------------------------------------------

// Go registers a harness thread. Call before Run or from a running thread.
func (s *S) Go(name string, f func()) *Thread {
	t := s.spawn(name)
	s.wg.Add(1)
	go func() {
		defer s.wg.Done()
		defer s.threadExit(t)
		s.threadStart(t)
		f()
	}()
	return t
}

// MaxThreads bounds the threads of one execution: code that keeps spawning (a reconnect loop, say) ends the
// execution with StepLimit instead of exhausting memory.
const MaxThreads = 400

func (s *S) spawn(name string) *Thread {
	s.mu.Lock()
	if len(s.threads) >= MaxThreads {
		s.runaway = true
	}
	t := &Thread{ID: len(s.threads), Name: name, wake: make(chan struct{}, 1)}
	s.threads = append(s.threads, t)
	s.awake++
	s.mu.Unlock()
	return t
}

func (s *S) threadStart(t *Thread) {
	s.parkAs(t, op{kind: OpYield, name: "start"})
}

func (s *S) threadExit(t *Thread) {
	r := recover()
	s.mu.Lock()
	if r != nil {
		if _, ok := r.(abortT); !ok && !s.aborting {
			if s.fatal == nil {
				s.fatal = &Fatal{Thread: t.Name, Msg: fmt.Sprint(r), Frame: repoFrame()}
			}
		} else if !ok && s.aborting {
			// a secondary panic while unwinding an aborted thread: ignore
		}
	}
	t.done = true
	t.pending = op{}
	if !s.aborting {
		s.awake--
		if s.awake == 0 {
			select {
			case s.idle <- struct{}{}:
			default:
			}
		}
	}
	s.mu.Unlock()
}

// GoFunc is what a rewritten `go f()` statement calls.
func GoFunc(f func()) {
	s := Active()
	if s == nil {
		go f()
		return
	}
	if s.isAborting() {
		return
	}
	name := "go@" + callerName(2)
	t := s.spawn(name)
	s.wg.Add(1)
	go func() {
		defer s.wg.Done()
		defer s.threadExit(t)
		s.threadStart(t)
		f()
	}()
}

func (s *S) isAborting() bool {
	s.mu.Lock()
	defer s.mu.Unlock()
	return s.aborting
}

// parkAs publishes t's pending operation and blocks until the scheduler
// selects t.
func (s *S) parkAs(t *Thread, o op) {
	s.mu.Lock()
	if s.aborting {
		s.mu.Unlock()
		panic(abortSentinel)
	}
	t.pending = o
	s.awake--
	if s.awake == 0 {
		select {
		case s.idle <- struct{}{}:
		default:
		}
	}
	s.mu.Unlock()
	<-t.wake
	s.mu.Lock()
	ab := s.aborting
	s.mu.Unlock()
	if ab {
		panic(abortSentinel)
	}
}

func (s *S) cur() *Thread {
	s.mu.Lock()
	t := s.current
	s.mu.Unlock()
	if t == nil {
		panic("sched: hook called with no current thread (unregistered goroutine?)")
	}
	return t
}

// CurrentName is the name of the running thread.
func (s *S) CurrentName() string { return s.cur().Name }

// ---- hooks ------------------------------------------------------------------

// Yield is a pure scheduling point.
func Yield(name string) {
	if s := Active(); s != nil {
		if s.isAborting() {
			return
		}
		s.parkAs(s.cur(), op{kind: OpYield, name: name})
	}
}

func (s *S) Yield(name string) { s.parkAs(s.cur(), op{kind: OpYield, name: name}) }

// WaitUntil parks a harness thread until cond holds; cond is evaluated by the
// scheduler while every thread is parked, so it may read the world freely.
func (s *S) WaitUntil(name string, cond func() bool) {
	s.parkAs(s.cur(), op{kind: OpCond, name: name, cond: cond})
}

// Wait parks the current thread until the environment has an alternative for obj.
func (s *S) Wait(obj interface{}) {
	s.parkAs(s.cur(), op{kind: OpWait, obj: obj})
}

func chanKey(ch interface{}) interface{} {
	v := reflect.ValueOf(ch)
	if v.Kind() != reflect.Chan {
		panic("sched: not a channel: " + v.Kind().String())
	}
	return v.Pointer()
}

func BeforeSend(ch interface{}) {
	if s := Active(); s != nil {
		if s.isAborting() {
			panic(abortSentinel)
		}
		s.parkAs(s.cur(), op{kind: OpSend, obj: ch})
	}
}

func AfterSend(ch interface{}) {}

func BeforeRecv(ch interface{}) {
	if s := Active(); s != nil {
		if s.isAborting() {
			panic(abortSentinel)
		}
		s.parkAs(s.cur(), op{kind: OpRecv, obj: ch})
	}
}

// AfterRecv is called by the receiver right after the real receive. If the
// receive was a rendezvous with a sender that keeps running, the receiver
// re-parks as runnable here, which preserves serial execution.
func AfterRecv(ch interface{}) {
	s := Active()
	if s == nil {
		return
	}
	s.mu.Lock()
	if s.aborting {
		s.mu.Unlock()
		return
	}
	k := chanKey(ch)
	t := s.rendezvous[k]
	if t != nil {
		delete(s.rendezvous, k)
	}
	s.mu.Unlock()
	if t != nil {
		s.parkAs(t, op{kind: OpYield, name: "after-recv"})
	}
}

// Select parks until one of the receive cases is enabled and returns its index.
func Select(chans ...interface{}) int {
	s := Active()
	if s == nil {
		cases := make([]reflect.SelectCase, len(chans))
		for i, c := range chans {
			cases[i] = reflect.SelectCase{Dir: reflect.SelectRecv, Chan: reflect.ValueOf(c)}
		}
		// free-running mode: wait until some case is ready without consuming:
		// only closed/never-carrying channels can be probed safely, so poll.
		for {
			for i, c := range chans {
				if recvReady(c) {
					return i
				}
			}
			time.Sleep(200 * time.Microsecond)
		}
	}
	if s.isAborting() {
		panic(abortSentinel)
	}
	t := s.cur()
	s.parkAs(t, op{kind: OpSelect, chans: chans})
	return t.selIdx
}

// recvReady: a receive on ch would not block without a sender thread:
// buffered data present, or (for channels that never carry data) closed.
func recvReady(ch interface{}) bool {
	v := reflect.ValueOf(ch)
	if v.Len() > 0 {
		return true
	}
	et := v.Type().Elem()
	if et.Kind() == reflect.Struct && et.NumField() == 0 {
		// chan struct{}: used as close-only signal (ctx.Done()); probing consumes nothing
		// unless someone sends on it, which this code base never does.
		if v.Type().ChanDir()&reflect.RecvDir == 0 {
			return false
		}
		chosen, _, rok := reflect.Select([]reflect.SelectCase{
			{Dir: reflect.SelectRecv, Chan: v}, {Dir: reflect.SelectDefault}})
		return chosen == 0 && !rok
	}
	return false
}

// ---- mutex model ------------------------------------------------------------

func (s *S) Lock(m interface{}) {
	if s.isAborting() {
		return
	}
	s.parkAs(s.cur(), op{kind: OpLock, obj: m})
}

func (s *S) Unlock(m interface{}) {
	s.mu.Lock()
	ab := s.aborting
	if !ab {
		if s.mutexOwner[m] == nil && s.rwWriter[m] == nil {
			s.mu.Unlock()
			panic("sync: unlock of unlocked mutex")
		}
		delete(s.mutexOwner, m)
		delete(s.rwWriter, m)
	}
	s.mu.Unlock()
	// the release itself is a scheduling point: what a thread does right after leaving a critical section
	// may interleave with another thread entering it
	if !ab && s.UnlockYields {
		s.parkAs(s.cur(), op{kind: OpYield, name: "after-unlock"})
	}
}

// UnlockNoYield releases without a scheduling point.
func (s *S) UnlockNoYield(m interface{}) {
	s.mu.Lock()
	if !s.aborting {
		delete(s.mutexOwner, m)
		delete(s.rwWriter, m)
	}
	s.mu.Unlock()
}

func (s *S) RLock(m interface{}) {
	if s.isAborting() {
		return
	}
	s.parkAs(s.cur(), op{kind: OpRLock, obj: m})
}

func (s *S) RUnlock(m interface{}) {
	s.mu.Lock()
	if !s.aborting {
		if s.rwReaders[m] <= 0 {
			s.mu.Unlock()
			panic("sync: RUnlock of unlocked RWMutex")
		}
		s.rwReaders[m]--
	}
	s.mu.Unlock()
}

func (s *S) WGAdd(w interface{}, n int) {
	s.mu.Lock()
	s.wgCount[w] += n
	s.mu.Unlock()
}

func (s *S) WGWait(w interface{}) {
	if s.isAborting() {
		return
	}
	s.parkAs(s.cur(), op{kind: OpWGWait, obj: w})
}

// ---- virtual clock ----------------------------------------------------------

// Now returns the virtual time and advances it (every reading is later than
// the previous one by step ns).
func (s *S) Now() time.Time {
	s.mu.Lock()
	if !s.ClockFrozen {
		s.clock += 1000
	}
	c := s.clock
	s.mu.Unlock()
	return time.Unix(0, c)
}

func (s *S) SetClock(ns int64) { s.mu.Lock(); s.clock = ns; s.mu.Unlock() }
func (s *S) Clock() int64      { s.mu.Lock(); defer s.mu.Unlock(); return s.clock }

// ---- virtual tickers ---------------------------------------------------------

// VTicker is a time.Ticker owned by the scheduler: it fires only when the harness says so (FireTickers), which
// makes "the timer lands now" an explored choice instead of a matter of wall-clock time.
type VTicker struct {
	C       chan time.Time
	D       time.Duration
	stopped bool
}

func (s *S) NewTicker(d time.Duration) *VTicker {
	t := &VTicker{C: make(chan time.Time, 1), D: d}
	s.mu.Lock()
	s.tickers = append(s.tickers, t)
	s.mu.Unlock()
	return t
}

func (s *S) StopTicker(t *VTicker) { s.mu.Lock(); t.stopped = true; s.mu.Unlock() }

// TickersArmed: some running ticker has room for a tick. For use in WaitUntil conditions only (they are
// evaluated by the scheduling loop, which holds the lock).
func (s *S) TickersArmed() bool {
	for _, t := range s.tickers {
		if !t.stopped && len(t.C) == 0 {
			return true
		}
	}
	return false
}

// FireTickers advances the clock by the longest period among the running tickers and delivers one tick to
// each of them (a tick that finds the buffer full is dropped, as with time.Ticker). Returns how many fired.
func (s *S) FireTickers() int {
	s.mu.Lock()
	defer s.mu.Unlock()
	var d time.Duration
	for _, t := range s.tickers {
		if !t.stopped && t.D > d {
			d = t.D
		}
	}
	s.clock += int64(d)
	n := 0
	for _, t := range s.tickers {
		if t.stopped {
			continue
		}
		select {
		case t.C <- time.Unix(0, s.clock):
			n++
		default:
		}
	}
	return n
}

// ---- the scheduling loop ----------------------------------------------------

type cand struct {
	t       *Thread
	partner *Thread // for send: receiver
	alt     int     // env alternative / select case
	nalt    int
}

func (s *S) enabled(t *Thread) (bool, []cand) {
	if t.done {
		return false, nil
	}
	o := t.pending
	switch o.kind {
	case OpYield:
		return true, []cand{{t: t}}
	case OpLock:
		if s.mutexOwner[o.obj] == nil && s.rwWriter[o.obj] == nil && s.rwReaders[o.obj] == 0 {
			return true, []cand{{t: t}}
		}
	case OpRLock:
		if s.rwWriter[o.obj] == nil {
			return true, []cand{{t: t}}
		}
	case OpWGWait:
		if s.wgCount[o.obj] <= 0 {
			return true, []cand{{t: t}}
		}
	case OpSend:
		v := reflect.ValueOf(o.obj)
		if v.Cap() > 0 && v.Len() < v.Cap() {
			return true, []cand{{t: t}}
		}
		k := chanKey(o.obj)
		var cs []cand
		for _, r := range s.threads {
			if r.done || r == t {
				continue
			}
			switch r.pending.kind {
			case OpRecv:
				if chanKey(r.pending.obj) == k {
					cs = append(cs, cand{t: t, partner: r})
				}
			case OpSelect:
				for i, c := range r.pending.chans {
					if chanKey(c) == k {
						cs = append(cs, cand{t: t, partner: r, alt: i})
						break
					}
				}
			}
		}
		return len(cs) > 0, cs
	case OpRecv:
		if recvReady(o.obj) {
			return true, []cand{{t: t}}
		}
	case OpSelect:
		var cs []cand
		for i, c := range o.chans {
			if recvReady(c) {
				cs = append(cs, cand{t: t, alt: i})
			}
		}
		return len(cs) > 0, cs
	case OpCond:
		if o.cond() {
			return true, []cand{{t: t}}
		}
	case OpWait:
		if s.Env != nil {
			n := s.Env.Alternatives(o.obj)
			if n > 0 {
				return true, []cand{{t: t, nalt: n}}
			}
		}
	}
	return false, nil
}

func (s *S) choose(kind PointKind, n int, nrun int, label string) int {
	i := len(s.Points)
	c := 0
	if i < len(s.prefix) {
		c = s.prefix[i]
		if c >= n {
			fmt.Fprintf(os.Stderr, "HARNESS-ERROR: replay divergence at point %d: choice %d of %d (%s)\n", i, c, n, label)
			os.Exit(2)
		}
	}
	p := Point{Kind: kind, N: n, Chosen: c, NRun: nrun, Preempt: s.preempt, EnvDev: s.envDev, Delays: s.delays}
	if s.Tracing {
		p.Label = label
	}
	s.Points = append(s.Points, p)
	if c > 0 {
		if kind == PThread {
			s.delays++
		}
		if kind == PThread && nrun > 0 && c >= nrun {
			s.preempt++
		}
		if kind == PEnv {
			s.envDev++
		}
	}
	return c
}

// Run drives the registered threads to completion under the choice prefix.
func (s *S) Run() Outcome {
	if !active.CompareAndSwap(nil, s) {
		panic("sched: another scheduler is active")
	}
	defer active.Store(nil)
	out := s.loop()
	// abort whatever is still parked
	s.mu.Lock()
	s.aborting = true
	for _, t := range s.threads {
		if !t.done {
			bi := BlockedInfo{Thread: t.Name, Kind: t.pending.kind, Desc: t.pending.describe()}
			if t.pending.obj != nil && (t.pending.kind == OpSend || t.pending.kind == OpRecv) {
				bi.ElemType = reflect.TypeOf(t.pending.obj).Elem().String()
			}
			s.Blocked = append(s.Blocked, bi)
			select {
			case t.wake <- struct{}{}:
			default:
			}
		}
	}
	s.mu.Unlock()
	done := make(chan struct{})
	go func() { s.wg.Wait(); close(done) }()
	select {
	case <-done:
	case <-time.After(30 * time.Second):
		fmt.Fprintf(os.Stderr, "HARNESS-ERROR: threads did not unwind after abort: %v\n", s.Blocked)
		os.Exit(2)
	}
	return out
}

func (o op) describe() string {
	switch o.kind {
	case OpYield:
		return "yield(" + o.name + ")"
	case OpSend, OpRecv:
		return fmt.Sprintf("%s(%s)", o.kind, reflect.TypeOf(o.obj))
	case OpSelect:
		return fmt.Sprintf("select(%d)", len(o.chans))
	case OpCond:
		return "cond(" + o.name + ")"
	case OpWait:
		return "wait(env)"
	default:
		return o.kind.String()
	}
}

// OnSpin, when set, is called (and must not return) when a thread of the run has been computing for 120 s
// without reaching any hook and the goroutine dump shows it running inside repository code: the library
// spins (a loop that never ends), which is a finding about the library, not a harness fault.
var OnSpin func(frame string)

// spinningRepoFrame returns the innermost repository function of a goroutine that is running or runnable
// (not blocked) with repository code on top of its stack, "" if there is none.
func spinningRepoFrame(dump string) string {
	for _, g := range strings.Split(dump, "\n\n") {
		lines := strings.Split(g, "\n")
		if len(lines) < 2 || !(strings.Contains(lines[0], "[running]") || strings.Contains(lines[0], "[runnable]")) {
			continue
		}
		for _, l := range lines[1:] {
			if strings.HasPrefix(l, "\t") || strings.HasPrefix(l, "created by") {
				continue
			}
			if strings.HasPrefix(l, "github.com/xelaj/mtproto") && !strings.Contains(l, "/zverif/") {
				f := l
				if i := strings.LastIndexByte(f, '('); i > 0 {
					f = f[:i]
				}
				return strings.TrimPrefix(f, "github.com/xelaj/mtproto/")
			}
			if strings.HasPrefix(l, "math/") || strings.HasPrefix(l, "runtime.") || strings.HasPrefix(l, "crypto/") ||
				strings.Contains(l, "/zverif/vrand.") || strings.Contains(l, "/zverif/vcrand.") || strings.Contains(l, "/zverif/vclock.") {
				continue // arithmetic, random draws or clock readings made by the spinning loop
			}
			break // the goroutine runs something else (harness, scheduler)
		}
	}
	return ""
}

func (s *S) waitIdle() {
	for {
		// a token on s.idle says "the count of running threads reached zero at some moment"; threads spawned
		// before Run (several s.Go calls) can leave a token behind while a later one is still on its way to its
		// first park, so the count itself is what decides
		s.mu.Lock()
		quiet := s.awake == 0
		s.mu.Unlock()
		if quiet {
			select { // drop a stale token
			case <-s.idle:
			default:
			}
			return
		}
		if s.waitToken() {
			continue
		}
	}
}

// waitToken blocks until some thread reports that the count reached zero (true), or deals with the watchdog.
func (s *S) waitToken() bool {
	select {
	case <-s.idle:
		return true
	default:
	}
	if s.watchdog == nil {
		s.watchdog = time.NewTimer(120 * time.Second)
	} else {
		if !s.watchdog.Stop() {
			select {
			case <-s.watchdog.C:
			default:
			}
		}
		s.watchdog.Reset(120 * time.Second)
	}
	select {
	case <-s.idle:
		s.watchdog.Stop()
		return true
	case <-s.watchdog.C:
		buf := make([]byte, 1<<20)
		n := runtime.Stack(buf, true)
		if fr := spinningRepoFrame(string(buf[:n])); fr != "" && OnSpin != nil {
			OnSpin(fr) // does not return
		}
		fmt.Fprintf(os.Stderr, "HARNESS-ERROR: a thread blocked outside the scheduler's hooks for 120s\n%s\n", buf[:n])
		os.Exit(2)
	}
	return true
}

func (s *S) loop() Outcome {
	steps := 0
	for {
		s.waitIdle()
		s.mu.Lock()
		if s.fatal != nil {
			s.mu.Unlock()
			return FatalPanic
		}
		// canonical order: running thread first if enabled, then ascending ids
		var order []*Thread
		if s.current != nil && !s.current.done {
			order = append(order, s.current)
		}
		for _, t := range s.threads {
			if t != s.current && !t.done {
				order = append(order, t)
			}
		}
		var cands []cand
		runEn := false
		for i, t := range order {
			ok, cs := s.enabled(t)
			if ok {
				if i == 0 && t == s.current {
					runEn = true
				}
				cands = append(cands, cs...)
			}
		}
		if len(cands) == 0 {
			allDone := true
			for _, t := range s.threads {
				if !t.done {
					allDone = false
				}
			}
			s.awake = 0
			s.mu.Unlock()
			if allDone {
				return Quiescent
			}
			return Deadlock // the harness decides whether the blocked set is acceptable
		}
		steps++
		if steps > s.MaxSteps || s.runaway {
			s.mu.Unlock()
			return StepLimit
		}
		// the default continuation must be candidate 0; if the running thread is enabled
		// all of its candidates come first (they were appended first).
		nrun := 0
		if runEn {
			for _, c := range cands {
				if c.t == s.current {
					nrun++
				}
			}
		}
		label := ""
		if s.Tracing {
			var b strings.Builder
			for _, c := range cands {
				fmt.Fprintf(&b, "%s:%s ", c.t.Name, c.t.pending.describe())
			}
			label = b.String()
		}
		ci := s.choose(PThread, len(cands), nrun, label)
		c := cands[ci]
		t := c.t
		o := t.pending
		alt := 0
		if o.kind == OpWait && c.nalt > 1 {
			alt = s.choose(PEnv, c.nalt, 0, "env")
		}
		if s.Tracing {
			s.Trace = append(s.Trace, fmt.Sprintf("%s:%s alt=%d", t.Name, o.describe(), alt))
		}
		t.steps++
		// apply
		switch o.kind {
		case OpLock:
			s.mutexOwner[o.obj] = t
		case OpRLock:
			s.rwReaders[o.obj]++
		case OpSelect:
			t.selIdx = c.alt
		}
		t.pending = op{}
		s.current = t
		s.awake++
		if o.kind == OpWait {
			s.mu.Unlock()
			s.Env.Apply(o.obj, alt)
			s.mu.Lock()
		}
		if c.partner != nil {
			r := c.partner
			if r.pending.kind == OpSelect {
				r.selIdx = c.alt
			}
			r.pending = op{}
			s.rendezvous[chanKey(o.obj)] = r
			s.awake++
			r.wake <- struct{}{}
		}
		s.mu.Unlock()
		t.wake <- struct{}{}
	}
}

// WLock marks an RWMutex write lock (same model slot as a mutex but exclusive with readers).
func (s *S) WLock(m interface{}) {
	if s.isAborting() {
		return
	}
	s.parkAs(s.cur(), op{kind: OpLock, obj: m})
}

func (s *S) FatalEvent() *Fatal { s.mu.Lock(); defer s.mu.Unlock(); return s.fatal }

func (s *S) Threads() []*Thread { return s.threads }

func (t *Thread) Done() bool              { return t.done }
func (t *Thread) Pending() OpKind         { return t.pending.kind }
func (t *Thread) PendingDesc() string     { return t.pending.describe() }
func (t *Thread) PendingObj() interface{} { return t.pending.obj }

// ---- helpers ----------------------------------------------------------------

var closureRe = regexp.MustCompile(`(\.func\d+)+(\.\d+)*$`)

func repoFrame() string {
	pcs := make([]uintptr, 64)
	n := runtime.Callers(3, pcs)
	frames := runtime.CallersFrames(pcs[:n])
	for {
		f, more := frames.Next()
		fn := f.Function
		if strings.HasPrefix(fn, "github.com/xelaj/mtproto") && !strings.Contains(fn, "/zverif/") &&
			!strings.HasSuffix(f.File, "_verif.go") {
			fn = strings.TrimPrefix(fn, "github.com/xelaj/mtproto/")
			fn = strings.TrimPrefix(fn, "github.com/xelaj/")
			return closureRe.ReplaceAllString(fn, "")
		}
		if !more {
			return "?"
		}
	}
}

func callerName(skip int) string {
	pc, _, _, ok := runtime.Caller(skip)
	if !ok {
		return "?"
	}
	fn := runtime.FuncForPC(pc).Name()
	if i := strings.LastIndex(fn, "/"); i >= 0 {
		fn = fn[i+1:]
	}
	return closureRe.ReplaceAllString(fn, "")
}

// IsAbort reports whether a recovered value is the scheduler's unwinding
// sentinel; harness code that recovers must re-panic it.
func IsAbort(r interface{}) bool { _, ok := r.(abortT); return ok }
