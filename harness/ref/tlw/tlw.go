// Package tlw is a minimal, independent TL primitive writer/reader used by the
// reference models (part of R1): little-endian ints, length-prefixed 4-byte
// aligned strings, id+count vectors. Shares no code with the repository.
package tlw

import (
	"encoding/binary"
	"errors"
	"math"
)

const (
	Vector    = 0x1cb5c415
	BoolTrue  = 0x997275b5
	BoolFalse = 0xbc799737
	Null      = 0x56730bcc
)

type W struct{ B []byte }

func (w *W) U32(v uint32) *W { w.B = binary.LittleEndian.AppendUint32(w.B, v); return w }
func (w *W) I32(v int32) *W  { return w.U32(uint32(v)) }
func (w *W) I64(v int64) *W  { w.B = binary.LittleEndian.AppendUint64(w.B, uint64(v)); return w }
func (w *W) F64(v float64) *W {
	w.B = binary.LittleEndian.AppendUint64(w.B, math.Float64bits(v))
	return w
}
func (w *W) Raw(b []byte) *W { w.B = append(w.B, b...); return w }
func (w *W) Bool(v bool) *W {
	if v {
		return w.U32(BoolTrue)
	}
	return w.U32(BoolFalse)
}

// Str writes a TL string/bytes value. Lengths >= 2^24 are not representable.
func (w *W) Str(b []byte) *W {
	n := len(b)
	if n >= 1<<24 {
		panic("tlw: string too long for TL")
	}
	var used int
	if n < 254 {
		w.B = append(w.B, byte(n))
		used = 1 + n
	} else {
		w.B = append(w.B, 0xfe, byte(n), byte(n>>8), byte(n>>16))
		used = 4 + n
	}
	w.B = append(w.B, b...)
	for used%4 != 0 {
		w.B = append(w.B, 0)
		used++
	}
	return w
}

func (w *W) VecI64(v []int64) *W {
	w.U32(Vector).U32(uint32(len(v)))
	for _, x := range v {
		w.I64(x)
	}
	return w
}

func (w *W) VecI32(v []int32) *W {
	w.U32(Vector).U32(uint32(len(v)))
	for _, x := range v {
		w.I32(x)
	}
	return w
}

type R struct {
	B   []byte
	Err error
}

func (r *R) take(n int) []byte {
	if r.Err != nil {
		return make([]byte, n)
	}
	if n < 0 || len(r.B) < n {
		r.Err = errors.New("tlw: short input")
		return make([]byte, max(n, 0))
	}
	b := r.B[:n]
	r.B = r.B[n:]
	return b
}
func (r *R) U32() uint32 { return binary.LittleEndian.Uint32(r.take(4)) }
func (r *R) I32() int32  { return int32(r.U32()) }
func (r *R) I64() int64  { return int64(binary.LittleEndian.Uint64(r.take(8))) }
func (r *R) Str() []byte {
	h := r.take(1)[0]
	n, used := int(h), 1
	if h == 0xfe {
		l := r.take(3)
		n, used = int(l[0])|int(l[1])<<8|int(l[2])<<16, 4
	} else if h == 0xff {
		r.Err = errors.New("tlw: bad string header")
		return nil
	}
	b := r.take(n)
	used += n
	if used%4 != 0 {
		r.take(4 - used%4)
	}
	return b
}
func (r *R) VecI64() []int64 {
	if r.U32() != Vector {
		r.Err = errors.New("tlw: not a vector")
		return nil
	}
	n := int(r.U32())
	if n < 0 || n > len(r.B)/8 {
		r.Err = errors.New("tlw: vector count")
		return nil
	}
	out := make([]int64, n)
	for i := range out {
		out[i] = r.I64()
	}
	return out
}
