// Package mtp1 is reference model R2: AES-256-IGE from its definition, the
// MTProto 1.0 key schedule and envelope, and the key-exchange temp-key wrapper.
// Written from core.telegram.org/mtproto/description_v1 and /auth_key; shares no
// code with the repository.
package mtp1

import (
	"bytes"
	"crypto/aes"
	"crypto/sha1"
	"encoding/binary"
	"errors"
	"fmt"
)

// IGEEncrypt: c_i = AES_k(p_i xor c_{i-1}) xor p_{i-1}; c_0 = iv[0:16], p_0 = iv[16:32].
func IGEEncrypt(key, iv, plain []byte) []byte {
	if len(key) != 32 || len(iv) != 32 || len(plain) == 0 || len(plain)%16 != 0 {
		panic("mtp1: bad IGE arguments")
	}
	blk, _ := aes.NewCipher(key)
	out := make([]byte, len(plain))
	cPrev := append([]byte{}, iv[:16]...)
	pPrev := append([]byte{}, iv[16:]...)
	var tmp [16]byte
	for i := 0; i < len(plain); i += 16 {
		for j := 0; j < 16; j++ {
			tmp[j] = plain[i+j] ^ cPrev[j]
		}
		blk.Encrypt(tmp[:], tmp[:])
		for j := 0; j < 16; j++ {
			out[i+j] = tmp[j] ^ pPrev[j]
		}
		copy(cPrev, out[i:i+16])
		copy(pPrev, plain[i:i+16])
	}
	return out
}

// IGEDecrypt: p_i = AES^-1_k(c_i xor p_{i-1}) xor c_{i-1}.
func IGEDecrypt(key, iv, ct []byte) []byte {
	if len(key) != 32 || len(iv) != 32 || len(ct) == 0 || len(ct)%16 != 0 {
		panic("mtp1: bad IGE arguments")
	}
	blk, _ := aes.NewCipher(key)
	out := make([]byte, len(ct))
	cPrev := append([]byte{}, iv[:16]...)
	pPrev := append([]byte{}, iv[16:]...)
	var tmp [16]byte
	for i := 0; i < len(ct); i += 16 {
		for j := 0; j < 16; j++ {
			tmp[j] = ct[i+j] ^ pPrev[j]
		}
		blk.Decrypt(tmp[:], tmp[:])
		for j := 0; j < 16; j++ {
			out[i+j] = tmp[j] ^ cPrev[j]
		}
		copy(cPrev, ct[i:i+16])
		copy(pPrev, out[i:i+16])
	}
	return out
}

func sha(parts ...[]byte) []byte {
	h := sha1.New()
	for _, p := range parts {
		h.Write(p)
	}
	return h.Sum(nil)
}

// KeyID = lower 64 bits of SHA1(auth_key).
func KeyID(authKey []byte) []byte { return sha(authKey)[12:20] }

// KDF: MTProto 1.0 key derivation; x = 0 client->server, x = 8 server->client.
func KDF(authKey, msgKey []byte, x int) (key, iv []byte) {
	a := sha(msgKey, authKey[x:x+32])
	b := sha(authKey[32+x:48+x], msgKey, authKey[48+x:64+x])
	c := sha(authKey[64+x:96+x], msgKey)
	d := sha(msgKey, authKey[96+x:128+x])
	key = append(append(append([]byte{}, a[0:8]...), b[8:20]...), c[4:16]...)
	iv = append(append(append(append([]byte{}, a[8:20]...), b[0:8]...), c[16:20]...), d[0:8]...)
	return
}

type Msg struct {
	Salt, Session, MsgID int64
	SeqNo                int32
	Body                 []byte
}

func (m Msg) String() string {
	return fmt.Sprintf("{salt=%#x sess=%#x id=%#x seq=%d len=%d}", uint64(m.Salt), uint64(m.Session), uint64(m.MsgID), m.SeqNo, len(m.Body))
}

func (m Msg) Equal(o Msg) bool {
	return m.Salt == o.Salt && m.Session == o.Session && m.MsgID == o.MsgID && m.SeqNo == o.SeqNo && bytes.Equal(m.Body, o.Body)
}

// Plain builds the inner plaintext with an explicit declared length and padding.
func Plain(m Msg, declaredLen int32, pad []byte) []byte {
	b := make([]byte, 32, 32+len(m.Body)+len(pad))
	binary.LittleEndian.PutUint64(b[0:], uint64(m.Salt))
	binary.LittleEndian.PutUint64(b[8:], uint64(m.Session))
	binary.LittleEndian.PutUint64(b[16:], uint64(m.MsgID))
	binary.LittleEndian.PutUint32(b[24:], uint32(m.SeqNo))
	binary.LittleEndian.PutUint32(b[28:], uint32(declaredLen))
	b = append(b, m.Body...)
	return append(b, pad...)
}

// SealRaw encrypts an arbitrary plaintext under msgKey for direction x.
func SealRaw(authKey, msgKey, plain []byte, x int) []byte {
	k, iv := KDF(authKey, msgKey, x)
	out := append([]byte{}, KeyID(authKey)...)
	out = append(out, msgKey...)
	return append(out, IGEEncrypt(k, iv, plain)...)
}

// Seal produces the packet a conformant peer sends (x = 8: server->client).
func Seal(authKey []byte, m Msg, pad []byte, x int) []byte {
	if (32+len(m.Body)+len(pad))%16 != 0 || len(pad) > 15 {
		panic("mtp1: padding does not complete a block")
	}
	unpadded := Plain(m, int32(len(m.Body)), nil)
	msgKey := sha(unpadded)[4:20]
	return SealRaw(authKey, msgKey, Plain(m, int32(len(m.Body)), pad), x)
}

// PadLen is the unique 0..15 padding that completes the last block.
func PadLen(bodyLen int) int { return (16 - (32+bodyLen)%16) % 16 }

// Open is what a conformant peer does with a packet (x = 0: from the client).
func Open(authKey, packet []byte, x int) (Msg, int, error) {
	var m Msg
	if len(packet) < 24+16 || (len(packet)-24)%16 != 0 {
		return m, 0, errors.New("bad packet length")
	}
	if !bytes.Equal(packet[:8], KeyID(authKey)) {
		return m, 0, errors.New("unknown auth_key_id")
	}
	msgKey := packet[8:24]
	k, iv := KDF(authKey, msgKey, x)
	p := IGEDecrypt(k, iv, packet[24:])
	if len(p) < 32 {
		return m, 0, errors.New("short plaintext")
	}
	m.Salt = int64(binary.LittleEndian.Uint64(p[0:]))
	m.Session = int64(binary.LittleEndian.Uint64(p[8:]))
	m.MsgID = int64(binary.LittleEndian.Uint64(p[16:]))
	m.SeqNo = int32(binary.LittleEndian.Uint32(p[24:]))
	n := int32(binary.LittleEndian.Uint32(p[28:]))
	if n < 0 || 32+int(n) > len(p) {
		return m, 0, fmt.Errorf("declared length %d outside plaintext of %d", n, len(p))
	}
	pad := len(p) - 32 - int(n)
	if pad > 15 {
		return m, pad, fmt.Errorf("padding of %d bytes", pad)
	}
	if !bytes.Equal(sha(p[:32+int(n)])[4:20], msgKey) {
		return m, pad, errors.New("msg_key mismatch")
	}
	m.Body = append([]byte{}, p[32:32+int(n)]...)
	return m, pad, nil
}

// TempKeys: key-exchange temporary AES key/IV from the wire forms of the nonces.
func TempKeys(newNonce, serverNonce []byte) (key, iv []byte) {
	if len(newNonce) != 32 || len(serverNonce) != 16 {
		panic("mtp1: nonce widths")
	}
	h1 := sha(newNonce, serverNonce)
	h2 := sha(serverNonce, newNonce)
	h3 := sha(newNonce, newNonce)
	key = append(append([]byte{}, h1...), h2[0:12]...)
	iv = append(append(append([]byte{}, h2[12:20]...), h3...), newNonce[0:4]...)
	return
}

// TempSeal: SHA1(data) + data + pad, IGE-encrypted with the temp keys.
func TempSeal(data, pad, newNonce, serverNonce []byte) []byte {
	p := append(append(sha(data), data...), pad...)
	k, iv := TempKeys(newNonce, serverNonce)
	return IGEEncrypt(k, iv, p)
}

// TempOpen recovers data given its exact length (the peer knows the TL length).
func TempOpen(ct, newNonce, serverNonce []byte) []byte {
	k, iv := TempKeys(newNonce, serverNonce)
	return IGEDecrypt(k, iv, ct)
}

// TempOpenAny tries every padding 0..15 and returns the payload whose SHA-1 matches.
func TempOpenAny(ct, newNonce, serverNonce []byte) ([]byte, bool) {
	if len(ct) < 32 || len(ct)%16 != 0 {
		return nil, false
	}
	p := TempOpen(ct, newNonce, serverNonce)
	for pad := 0; pad <= 15 && 20+pad <= len(p); pad++ {
		d := p[20 : len(p)-pad]
		if bytes.Equal(sha(d), p[:20]) {
			return d, true
		}
	}
	return nil, false
}
