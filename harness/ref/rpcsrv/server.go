// Package rpcsrv is reference model R5: a session server that opens client
// frames exactly as an MTProto 1.0 server would, applies the msg_id / seq_no /
// salt acceptance rules, executes harness test requests and offers a menu of
// conformant ways to answer (order, containers, gzip, salt rotation,
// unsolicited service traffic, close). It is passive: it never runs in a thread
// of its own; the connection calls it when the client writes, and the explorer
// (or the default policy in free-running mode) decides what it emits.
package rpcsrv

import (
	"bytes"
	"compress/gzip"
	"encoding/binary"
	"fmt"
	"hash/crc32"
	"time"

	"github.com/xelaj/mtproto/zverif/ref/mtp1"
	"github.com/xelaj/mtproto/zverif/ref/tlw"
)

// Harness test request / result constructors (registered with the client's
// decoder by the session harness; not part of any Telegram schema).
const (
	ReqID = 0x7e570001 // vreq tag:int kind:int = X
	ResID = 0x7e570002 // vres tag:int = VRes

	idRpcResult      = 0xf35c6d01
	idRpcError       = 0x2144ca19
	idMsgContainer   = 0x73f1f8dc
	idGzipPacked     = 0x3072cfa1
	idBadServerSalt  = 0xedab447b
	idBadMsgNotif    = 0xa7eff811
	idNewSession     = 0x9ec20908
	idPong           = 0x347773c5
	idPing           = 0x7abe77ec
	idMsgsAck        = 0x62d6b459
	idFutureSalts    = 0xae500895
	idMsgsStateInfo  = 0x04deb57d
	idMsgsAllInfo    = 0x8cc0d131
	idMsgDetailed    = 0x276d3ec6
	idMsgNewDetailed = 0x809db6df
)

type Kind int32

const (
	KObj Kind = iota
	KBool
	KVecInt
	KVecObj
	KErr
	KVecIntBig  // Vector<int> of 12000 items: 48 KiB unpacked, more than one 32 KiB window of a decompressor
	KVecIntSame // Vector<int> of 12000 equal items: packs about 400:1 (an answer like a list of equal flags or zero counters)
)

// SameVec is the value of a KVecIntSame result.
func SameVec(tag int32) []int32 {
	v := make([]int32, 12000)
	for i := range v {
		v[i] = tag
	}
	return v
}

// BigVec is the value of a KVecIntBig result.
func BigVec(tag int32) []int32 {
	v := make([]int32, 12000)
	for i := range v {
		v[i] = tag*7919 + int32(i)*int32(i+3)
	}
	return v
}

// Out is one message the server has decided to send but not yet emitted.
type Out struct {
	Body     []byte
	Content  bool // content-related: odd seq_no, must be acknowledged
	IsResult bool
	ReqMsgID int64
	Tag      int32
	Kind     Kind
	Label    string
	ID       int64 // msg_id reserved at generation (Options.IDAtGeneration)
	// LazyBody / Lazy materialise the message when it is emitted (it may refer to earlier traffic).
	LazyBody func() []byte
	Lazy     func() Event
}

type Frame struct {
	Plain    bool
	Opened   bool
	Err      string
	Msg      mtp1.Msg
	Ctor     uint32
	Tag      int32
	Rejected bool // stale salt
	ConnID   int
	Clock    int64
}

type EventKind int

const (
	EvRotate     EventKind = iota // the server's salt changes; nothing is emitted
	EvSend                        // an unsolicited message
	EvClose                       // orderly close of the connection
	EvErrorFrame                  // a 4-byte transport error frame
	EvRawFrame                    // arbitrary frame bytes
)

type Event struct {
	Kind        EventKind
	Label       string
	Salt        int64
	Body        []byte
	Content     bool
	MsgIDParity int64 // 0 = default (1 for answers, 3 for notifications)
	Code        int32
	Raw         []byte
}

type Options struct {
	Reorder   bool // answer any outstanding request first
	Container bool // group >=2 deliverable messages, any order (<=3 members)
	Gzip      bool // gzip-pack a result
	// IDAtGeneration: a message gets its msg_id when it is generated (queued), as real servers do, so that
	// answering out of order or grouping later also means that an older msg_id arrives after a newer one
	IDAtGeneration bool
	// Duplicate: a result may be sent twice (as servers do when an acknowledgement got lost): both copies in
	// one container, each under its own msg_id
	Duplicate bool
	MaxMenu   int
}

type Server struct {
	Key     []byte
	Salt    int64
	Session int64
	HaveSes bool

	Frames   []Frame
	Exec     map[int32]int
	ExecLog  []int32
	AckedIDs map[int64]bool
	AckCount map[int64]int  // how many times each id was named in a msgs_ack
	Content  []int64        // server msg_ids sent with odd seq_no
	AllSent  map[int64]bool // every msg_id the server has used (messages, container items, containers)
	Queue    []*Out
	Script   []Event // spontaneous events still available (each at most once)
	Opt      Options
	Problems []string // protocol violations seen in the client's stream

	lastID        int64
	seq           int32
	Clock         func() int64
	Emitted       []string // labels in emission order
	Closed        bool
	lastClientID  int64
	lastClientSeq int32
	anyFrame      bool
	SaltAtWrite   []int64

	OnRequest func(msgID int64, body []byte) []byte

	// RotateBefore: the salt changes to the given value just before the n-th (1-based)
	// encrypted frame is examined - a deterministic part of a scenario, not an explorer choice.
	RotateBefore map[int]int64
	encFrames    int
	Rotations    int
	OnRotate     func(s *Server)
	AfterResult  func(s *Server, tag int32)
	// Override, when it returns non-nil, replaces the result object of a test request.
	Override     func(tag int32, kind Kind) []byte
	LastToldSalt int64

	// Plain handles unencrypted frames (key exchange); nil = protocol problem.
	Plain func(body []byte, msgID int64) [][]byte
}

func New(key []byte, salt int64) *Server {
	return &Server{Key: key, Salt: salt, Exec: map[int32]int{}, AckedIDs: map[int64]bool{}, AckCount: map[int64]int{}}
}

func (s *Server) problem(f string, a ...any) {
	s.Problems = append(s.Problems, fmt.Sprintf(f, a...))
}

func (s *Server) now() int64 {
	if s.Clock != nil {
		return s.Clock()
	}
	return time.Now().UnixNano() // free-running mode: the client's clock is the wall clock
}

// EncFrames: number of encrypted client frames seen so far (RotateBefore counts them from 1).
func (s *Server) EncFrames() int { return s.encFrames }

func (s *Server) nextID(parity int64) int64 {
	t := s.now()
	id := (t/1e9)<<32 | (t%1e9)&^3 | parity
	if id <= s.lastID {
		id = (s.lastID&^3 + 4) | parity
	}
	s.lastID = id
	if s.AllSent == nil {
		s.AllSent = map[int64]bool{}
	}
	s.AllSent[id] = true
	return id
}

func (s *Server) nextSeq(content bool) int32 {
	if content {
		v := s.seq*2 + 1
		s.seq++
		return v
	}
	return s.seq * 2
}

// OnFrame is called by the connection for every complete client frame.
func (s *Server) OnFrame(raw []byte, connID int) {
	f := Frame{ConnID: connID, Clock: s.now()}
	defer func() { s.Frames = append(s.Frames, f) }()
	if len(raw) >= 8 && binary.LittleEndian.Uint64(raw) == 0 {
		f.Plain = true
		if len(raw) < 20 {
			f.Err = "short plain frame"
			s.problem("plain frame of %d bytes", len(raw))
			return
		}
		f.Msg.MsgID = int64(binary.LittleEndian.Uint64(raw[8:]))
		n := int(binary.LittleEndian.Uint32(raw[16:]))
		if n != len(raw)-20 {
			f.Err = "plain length mismatch"
			s.problem("plain frame declares %d bytes, carries %d", n, len(raw)-20)
			return
		}
		f.Msg.Body = raw[20:]
		f.Opened = true
		if len(f.Msg.Body) >= 4 {
			f.Ctor = binary.LittleEndian.Uint32(f.Msg.Body)
		}
		if s.Plain == nil {
			s.problem("unexpected plain-text frame (ctor %#x)", f.Ctor)
			return
		}
		for _, ans := range s.Plain(f.Msg.Body, f.Msg.MsgID) {
			s.Queue = append(s.Queue, &Out{Body: ans, Label: "plain", Kind: -1})
		}
		return
	}
	if s.Key == nil {
		f.Err = "encrypted frame before any key"
		s.problem("encrypted frame but no auth key established")
		return
	}
	m, _, err := mtp1.Open(s.Key, raw, 0)
	if err != nil {
		f.Err = err.Error()
		s.problem("cannot open client frame: %v", err)
		return
	}
	f.Opened, f.Msg = true, m
	s.encFrames++
	if ns, ok := s.RotateBefore[s.encFrames]; ok {
		s.Salt = ns
		s.Rotations++
	}
	if !s.HaveSes {
		s.Session, s.HaveSes = m.Session, true
	} else if s.Session != m.Session {
		// a new session id (client object recreated): allowed, remember it
		s.Session = m.Session
		s.lastClientID, s.lastClientSeq, s.anyFrame = 0, 0, false
	}
	if len(m.Body) >= 4 {
		f.Ctor = binary.LittleEndian.Uint32(m.Body)
	}
	// ---- C10 rules, as a server applies them
	if m.MsgID%4 != 0 {
		s.problem("msg_id %#x is not a multiple of 4 (bad_msg_notification 18)", m.MsgID)
	}
	if s.anyFrame && m.MsgID <= s.lastClientID {
		s.problem("msg_id %#x is not greater than the previous msg_id %#x in write order (bad_msg_notification 16)", m.MsgID, s.lastClientID)
	}
	sec := m.MsgID >> 32
	if nowSec := s.now() / 1e9; sec > nowSec+30 || sec < nowSec-300 {
		s.problem("msg_id %#x is not derived from the current time (bad_msg_notification 16/17)", m.MsgID)
	}
	isAck := f.Ctor == idMsgsAck
	if isAck && m.SeqNo%2 != 0 {
		s.problem("msgs_ack carries odd seq_no %d (bad_msg_notification 35)", m.SeqNo)
	}
	if !isAck && f.Ctor != idMsgContainer && m.SeqNo%2 != 1 {
		s.problem("content-related message (ctor %#x) carries even seq_no %d (bad_msg_notification 34)", f.Ctor, m.SeqNo)
	}
	if s.anyFrame && m.SeqNo < s.lastClientSeq {
		s.problem("seq_no %d decreased after %d in write order (bad_msg_notification 32/33)", m.SeqNo, s.lastClientSeq)
	}
	s.lastClientID, s.lastClientSeq, s.anyFrame = m.MsgID, m.SeqNo, true
	s.SaltAtWrite = append(s.SaltAtWrite, m.Salt)

	if m.Salt != s.Salt {
		f.Rejected = true
		w := &tlw.W{}
		w.U32(idBadServerSalt).I64(m.MsgID).I32(m.SeqNo).I32(48).I64(s.Salt)
		s.LastToldSalt = s.Salt
		s.Queue = append(s.Queue, &Out{Body: w.B, Label: fmt.Sprintf("bad_server_salt(%s)", describe(f.Ctor, m.Body)), Kind: -1})
		return
	}
	r := &tlw.R{B: m.Body[min(4, len(m.Body)):]}
	switch f.Ctor {
	case idMsgsAck:
		for _, id := range r.VecI64() {
			s.AckedIDs[id] = true
			s.AckCount[id]++
		}
	case idPing:
		pid := r.I64()
		w := &tlw.W{}
		w.U32(idPong).I64(m.MsgID).I64(pid)
		s.Queue = append(s.Queue, &Out{Body: w.B, Content: true, Label: "pong", Kind: -1})
	case ReqID:
		tag, kind := r.I32(), Kind(r.I32())
		f.Tag = tag
		s.Exec[tag]++
		s.ExecLog = append(s.ExecLog, tag)
		body := ResultBody(m.MsgID, tag, kind, false)
		if s.Override != nil {
			if o := s.Override(tag, kind); o != nil {
				body = (&tlw.W{}).U32(idRpcResult).I64(m.MsgID).Raw(o).B
				kind = -1
			}
		}
		s.Queue = append(s.Queue, &Out{Body: body, Content: true, IsResult: true,
			ReqMsgID: m.MsgID, Tag: tag, Kind: kind, Label: fmt.Sprintf("result(tag=%d,kind=%d)", tag, kind)})
	default:
		if s.OnRequest != nil {
			if body := s.OnRequest(m.MsgID, m.Body); body != nil {
				w := &tlw.W{}
				w.U32(idRpcResult).I64(m.MsgID).Raw(body)
				s.Queue = append(s.Queue, &Out{Body: w.B, Content: true, IsResult: true, ReqMsgID: m.MsgID, Kind: -1, Label: fmt.Sprintf("result(%#x)", f.Ctor)})
			}
			return
		}
		s.problem("request with unknown constructor %#x", f.Ctor)
	}
}

func describe(ctor uint32, body []byte) string {
	if ctor == ReqID && len(body) >= 8 {
		return fmt.Sprintf("tag=%d", int32(binary.LittleEndian.Uint32(body[4:])))
	}
	return fmt.Sprintf("%#x", ctor)
}

// Payload is the result object for (tag, kind) without the rpc_result header.
func Payload(tag int32, kind Kind) []byte {
	w := &tlw.W{}
	switch kind {
	case KObj:
		w.U32(ResID).I32(tag)
	case KBool:
		w.Bool(tag%2 == 0)
	case KVecInt:
		w.VecI32([]int32{tag, tag + 1000, -tag})
	case KVecObj:
		w.U32(tlw.Vector).U32(2).U32(ResID).I32(tag).U32(ResID).I32(tag + 1000)
	case KErr:
		w.U32(idRpcError).I32(400 + tag%100).Str([]byte(fmt.Sprintf("TEST_ERROR_%d", tag)))
	case KVecIntBig:
		w.VecI32(BigVec(tag))
	case KVecIntSame:
		w.VecI32(SameVec(tag))
	}
	return w.B
}

// Gzip packs b as gzip_packed. RFC 1952 leaves the packer free in how it produces the stream; which of three
// legal forms is used is a fixed function of the content (so that every run sees the same bytes and all forms
// occur across the payloads of a check): written in one piece; written in pieces with a sync flush behind each
// (a streaming packer); two gzip members one after the other.
func Gzip(b []byte) []byte { return GzipForm(b, (len(b)/4+int(crc32.ChecksumIEEE(b)))%3) }

// GzipForm: form 0 = one piece, 1 = flushed pieces, 2 = two members.
func GzipForm(b []byte, form int) []byte {
	var buf bytes.Buffer
	pack := func(p []byte, piece int) {
		zw, _ := gzip.NewWriterLevel(&buf, gzip.BestSpeed)
		for len(p) > 0 {
			n := len(p)
			if piece > 0 && n > piece {
				n = piece
			}
			_, _ = zw.Write(p[:n])
			p = p[n:]
			if piece > 0 {
				_ = zw.Flush()
			}
		}
		_ = zw.Close()
	}
	switch form {
	case 1:
		pack(b, max(1, min(1000, len(b)/3)))
	case 2:
		pack(b[:len(b)/2], 0)
		pack(b[len(b)/2:], 0)
	default:
		pack(b, 0)
	}
	w := &tlw.W{}
	w.U32(idGzipPacked).Str(buf.Bytes())
	return w.B
}

func ResultBody(reqMsgID int64, tag int32, kind Kind, gz bool) []byte {
	w := &tlw.W{}
	w.U32(idRpcResult).I64(reqMsgID)
	p := Payload(tag, kind)
	if gz {
		p = Gzip(p)
	}
	return w.Raw(p).B
}

// ---- emission ----------------------------------------------------------------

type actKind int

const (
	actPlain actKind = iota
	actContainer
	actGzip
	actScript
	actDup
)

type Action struct {
	Kind  actKind
	Idx   []int // queue indices (in emission order) or script index
	Label string
}

// Menu lists the conformant emissions available now; entry 0 is the default
// policy (oldest queued message as a plain message).
func (s *Server) Menu() []Action {
	if s.Closed {
		return nil
	}
	var m []Action
	n := len(s.Queue)
	if n > 0 {
		m = append(m, Action{Kind: actPlain, Idx: []int{0}, Label: "plain:" + s.Queue[0].Label})
	}
	if s.Opt.Reorder {
		for i := 1; i < n; i++ {
			m = append(m, Action{Kind: actPlain, Idx: []int{i}, Label: "plain-out-of-order:" + s.Queue[i].Label})
		}
	}
	if s.Opt.Container && n >= 2 {
		for k := 2; k <= n && k <= 3; k++ {
			for _, p := range perms(k) {
				m = append(m, Action{Kind: actContainer, Idx: p, Label: fmt.Sprintf("container%v", p)})
			}
		}
	}
	if s.Opt.Gzip {
		for i := 0; i < n && i < 2; i++ {
			if s.Queue[i].IsResult {
				m = append(m, Action{Kind: actGzip, Idx: []int{i}, Label: "gzip:" + s.Queue[i].Label})
			}
		}
	}
	if s.Opt.Duplicate {
		for i := 0; i < n && i < 2; i++ {
			if s.Queue[i].IsResult {
				m = append(m, Action{Kind: actDup, Idx: []int{i}, Label: "twice:" + s.Queue[i].Label})
			}
		}
	}
	for j, e := range s.Script {
		_ = e
		m = append(m, Action{Kind: actScript, Idx: []int{j}, Label: "event:" + s.Script[j].Label})
	}
	if s.Opt.MaxMenu > 0 && len(m) > s.Opt.MaxMenu {
		m = m[:s.Opt.MaxMenu]
	}
	return m
}

func perms(k int) [][]int {
	var out [][]int
	var rec func(cur []int, used int)
	rec = func(cur []int, used int) {
		if len(cur) == k {
			out = append(out, append([]int{}, cur...))
			return
		}
		for i := 0; i < k; i++ {
			if used&(1<<i) == 0 {
				rec(append(cur, i), used|1<<i)
			}
		}
	}
	rec(nil, 0)
	return out
}

// Emit performs menu entry a and returns the frames (transport payloads) to put
// on the wire, and whether the connection is to be closed afterwards.
func (s *Server) Emit(a Action) (frames [][]byte, closeConn bool) {
	s.Emitted = append(s.Emitted, a.Label)
	if s.Opt.IDAtGeneration {
		for _, o := range s.Queue {
			if o.ID == 0 && o.Lazy == nil && o.Label != "plain" {
				o.ID = s.nextID(1)
			}
		}
	}
	take := func(idx []int) []*Out {
		var outs []*Out
		for _, i := range idx {
			outs = append(outs, s.Queue[i])
		}
		var rest []*Out
	next:
		for i, o := range s.Queue {
			for _, j := range idx {
				if i == j {
					continue next
				}
			}
			rest = append(rest, o)
		}
		s.Queue = rest
		return outs
	}
	switch a.Kind {
	case actPlain, actGzip:
		o := take(a.Idx)[0]
		if o.Lazy != nil {
			e := o.Lazy()
			switch e.Kind {
			case EvSend:
				return [][]byte{s.seal(e.Body, e.Content, e.MsgIDParity)}, false
			case EvClose:
				return nil, true
			case EvErrorFrame:
				b := make([]byte, 4)
				binary.LittleEndian.PutUint32(b, uint32(e.Code))
				return [][]byte{b}, false
			case EvRawFrame:
				return [][]byte{e.Raw}, false
			}
			return nil, false
		}
		if o.LazyBody != nil {
			o.Body = o.LazyBody()
		}
		if o.IsResult && s.AfterResult != nil {
			defer s.AfterResult(s, o.Tag)
		}
		if o.Label == "plain" { // key-exchange answer: unencrypted
			return [][]byte{s.plainFrame(o.Body)}, false
		}
		body := o.Body
		if a.Kind == actGzip && len(body) >= 12 {
			// rpc_result#f35c6d01 req_msg_id:long result:Object with the result object gzip-packed (whatever it
			// is: a test result, an rpc_error, an overridden answer)
			body = append(append([]byte{}, body[:12]...), Gzip(body[12:])...)
		}
		if o.ID != 0 {
			if o.Content {
				s.Content = append(s.Content, o.ID)
			}
			return [][]byte{s.sealRaw(body, o.ID, s.nextSeq(o.Content))}, false
		}
		return [][]byte{s.seal(body, o.Content, 0)}, false
	case actDup:
		o := take(a.Idx)[0]
		if o.LazyBody != nil {
			o.Body = o.LazyBody()
		}
		if o.IsResult && s.AfterResult != nil {
			defer s.AfterResult(s, o.Tag)
		}
		w := &tlw.W{}
		w.U32(idMsgContainer).U32(2)
		for k := 0; k < 2; k++ {
			id := s.nextID(1)
			if k == 0 && o.ID != 0 {
				id = o.ID
			}
			seq := s.nextSeq(o.Content)
			if o.Content {
				s.Content = append(s.Content, id)
			}
			w.I64(id).I32(seq).I32(int32(len(o.Body))).Raw(o.Body)
		}
		return [][]byte{s.sealRaw(w.B, s.nextID(1), s.nextSeq(false))}, false
	case actContainer:
		outs := take(a.Idx)
		w := &tlw.W{}
		w.U32(idMsgContainer).U32(uint32(len(outs)))
		for _, o := range outs {
			id := o.ID
			if id == 0 {
				id = s.nextID(1)
			}
			seq := s.nextSeq(o.Content)
			if o.Content {
				s.Content = append(s.Content, id)
			}
			w.I64(id).I32(seq).I32(int32(len(o.Body))).Raw(o.Body)
		}
		return [][]byte{s.sealRaw(w.B, s.nextID(1), s.nextSeq(false))}, false
	case actScript:
		e := s.Script[a.Idx[0]]
		s.Script = append(append([]Event{}, s.Script[:a.Idx[0]]...), s.Script[a.Idx[0]+1:]...)
		switch e.Kind {
		case EvRotate:
			s.Salt = e.Salt
			s.Rotations++
			if s.OnRotate != nil {
				s.OnRotate(s)
			}
			return nil, false
		case EvSend:
			return [][]byte{s.seal(e.Body, e.Content, e.MsgIDParity)}, false
		case EvClose:
			return nil, true
		case EvErrorFrame:
			b := make([]byte, 4)
			binary.LittleEndian.PutUint32(b, uint32(e.Code))
			return [][]byte{b}, false
		case EvRawFrame:
			return [][]byte{e.Raw}, false
		}
	}
	return nil, false
}

func (s *Server) plainFrame(body []byte) []byte {
	b := make([]byte, 20, 20+len(body))
	binary.LittleEndian.PutUint64(b[8:], uint64(s.nextID(1)))
	binary.LittleEndian.PutUint32(b[16:], uint32(len(body)))
	return append(b, body...)
}

func (s *Server) seal(body []byte, content bool, parity int64) []byte {
	if parity == 0 {
		parity = 1
	}
	id := s.nextID(parity & 3)
	if parity >= 4 { // explicit client-side parity requested (0 or 2): encoded as 4+parity
		id = id&^3 | (parity - 4)
	}
	if content {
		s.Content = append(s.Content, id)
	}
	return s.sealRaw(body, id, s.nextSeq(content))
}

func (s *Server) sealRaw(body []byte, id int64, seq int32) []byte {
	m := mtp1.Msg{Salt: s.Salt, Session: s.Session, MsgID: id, SeqNo: seq, Body: body}
	pad := make([]byte, mtp1.PadLen(len(body)))
	for i := range pad {
		pad[i] = byte(0xa5 + i)
	}
	return mtp1.Seal(s.Key, m, pad, 8)
}

// OnRequest, when set, answers requests whose constructor the server does not
// know itself: it returns the result object (without rpc_result header) or nil.
func (s *Server) SetOnRequest(f func(msgID int64, body []byte) []byte) { s.OnRequest = f }
