// Package srpref is reference model R6: the verifier (server) side of Telegram's
// SRP variant, written from core.telegram.org/api/srp. It holds only the
// password verifier v. Standard library only.
package srpref

import (
	"bytes"
	"crypto/hmac"
	"crypto/sha256"
	"crypto/sha512"
	"encoding/binary"
	"math/big"
)

func H(parts ...[]byte) []byte {
	h := sha256.New()
	for _, p := range parts {
		h.Write(p)
	}
	return h.Sum(nil)
}

func pad(b []byte) []byte {
	if len(b) >= 256 {
		return b[len(b)-256:]
	}
	return append(make([]byte, 256-len(b)), b...)
}

// pbkdf2 (RFC 8018) with HMAC-SHA512, one 64-byte block.
func pbkdf2(password, salt []byte, iter int) []byte {
	mac := hmac.New(sha512.New, password)
	mac.Write(salt)
	var idx [4]byte
	binary.BigEndian.PutUint32(idx[:], 1)
	mac.Write(idx[:])
	u := mac.Sum(nil)
	out := append([]byte{}, u...)
	for i := 1; i < iter; i++ {
		mac.Reset()
		mac.Write(u)
		u = mac.Sum(nil)
		for j := range out {
			out[j] ^= u[j]
		}
	}
	return out
}

func sh(data, salt []byte) []byte { return H(salt, data, salt) }

// X = PH2(password, salt1, salt2)
func X(password, salt1, salt2 []byte) *big.Int {
	ph1 := sh(sh(password, salt1), salt2)
	return new(big.Int).SetBytes(sh(pbkdf2(ph1, salt1, 100000), salt2))
}

type Group struct {
	P *big.Int
	G int64
}

type Verifier struct {
	Grp          Group
	Salt1, Salt2 []byte
	V            *big.Int // g^x mod p: all the server knows about the password
}

func NewVerifier(g Group, password, salt1, salt2 []byte) *Verifier {
	x := X(password, salt1, salt2)
	return &Verifier{Grp: g, Salt1: salt1, Salt2: salt2, V: new(big.Int).Exp(big.NewInt(g.G), x, g.P)}
}

func (v *Verifier) K() *big.Int {
	return new(big.Int).SetBytes(H(pad(v.Grp.P.Bytes()), pad(big.NewInt(v.Grp.G).Bytes())))
}

// B = (k*v + g^b) mod p
func (v *Verifier) B(b *big.Int) *big.Int {
	kv := new(big.Int).Mul(v.K(), v.V)
	gb := new(big.Int).Exp(big.NewInt(v.Grp.G), b, v.Grp.P)
	return kv.Add(kv, gb).Mod(kv, v.Grp.P)
}

// S = (A * v^u)^b mod p, with u = H(pad A | pad B)
func (v *Verifier) S(A, b *big.Int) *big.Int {
	u := new(big.Int).SetBytes(H(pad(A.Bytes()), pad(v.B(b).Bytes())))
	base := new(big.Int).Exp(v.V, u, v.Grp.P)
	base.Mul(base, A).Mod(base, v.Grp.P)
	return base.Exp(base, b, v.Grp.P)
}

// Check verifies the client's answer (A, M1) for the server secret b.
func (v *Verifier) Check(Abytes, M1 []byte, b *big.Int) bool {
	if len(Abytes) != 256 {
		return false
	}
	A := new(big.Int).SetBytes(Abytes)
	if A.Sign() <= 0 || A.Cmp(v.Grp.P) >= 0 {
		return false
	}
	p, g := pad(v.Grp.P.Bytes()), pad(big.NewInt(v.Grp.G).Bytes())
	hp, hg := H(p), H(g)
	x := make([]byte, len(hp))
	for i := range x {
		x[i] = hp[i] ^ hg[i]
	}
	K := H(pad(v.S(A, b).Bytes()))
	want := H(x, H(v.Salt1), H(v.Salt2), pad(A.Bytes()), pad(v.B(b).Bytes()), K)
	return bytes.Equal(want, M1)
}
