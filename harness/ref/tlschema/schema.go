// Package tlschema is reference model R1 (schema side): an independent parser
// for the TL subset used by schemes/*.tl and the canonical-line CRC-32 rule.
// It shares no code with the repository's tlparser.
package tlschema

import (
	"fmt"
	"hash/crc32"
	"regexp"
	"strconv"
	"strings"
)

type Type struct {
	Name    string // int, long, string, bytes, double, Bool, true, int128, int256, #, Vector, vector, X, or a type/constructor name
	Elem    *Type  // element type of Vector<>/vector<>
	Bare    bool   // %T or lower-case constructor reference
	Generic bool   // !X
	Raw     string
}

type Param struct {
	Name    string
	Type    Type
	Flags   bool   // this parameter is the flags word (`#`)
	CondOn  string // name of the flags field for conditional params
	CondBit int    // -1 when unconditional
	Raw     string
}

type Def struct {
	Name       string // constructor or method name, with namespace
	ID         uint32
	HasID      bool
	TypeParams []string
	Params     []Param
	Result     Type
	Func       bool
	Line       string // the definition as written (without comments)
	LineNo     int
}

type Schema struct {
	Defs []*Def
}

var builtinHeader = map[string]bool{"int": true, "long": true, "double": true, "string": true, "vector": true, "int128": true, "int256": true, "bytes": true}

func parseType(s string) (Type, error) {
	t := Type{Raw: s}
	if strings.HasPrefix(s, "!") {
		t.Generic = true
		s = s[1:]
	}
	if strings.HasPrefix(s, "%") {
		t.Bare = true
		s = s[1:]
	}
	if i := strings.IndexByte(s, '<'); i >= 0 {
		if !strings.HasSuffix(s, ">") {
			return t, fmt.Errorf("bad type %q", t.Raw)
		}
		e, err := parseType(s[i+1 : len(s)-1])
		if err != nil {
			return t, err
		}
		t.Name, t.Elem = s[:i], &e
		if t.Name != "Vector" && t.Name != "vector" {
			return t, fmt.Errorf("unknown generic %q", t.Name)
		}
		if t.Name == "vector" {
			t.Bare = true
		}
		return t, nil
	}
	if s == "" {
		return t, fmt.Errorf("empty type")
	}
	t.Name = s
	// a lower-case first letter of the last component means a bare constructor reference
	last := s
	if i := strings.LastIndexByte(s, '.'); i >= 0 {
		last = s[i+1:]
	}
	switch s {
	case "int", "long", "double", "string", "bytes", "int128", "int256", "true", "#":
	default:
		if last[0] >= 'a' && last[0] <= 'z' {
			t.Bare = true
		}
	}
	return t, nil
}

var identRe = regexp.MustCompile(`^[A-Za-z_][A-Za-z0-9_]*(\.[A-Za-z_][A-Za-z0-9_]*)*$`)

// Parse reads a schema. Lines starting with // are comments; `---functions---`
// and `---types---` switch sections.
func Parse(text string) (*Schema, error) {
	sc := &Schema{}
	funcs := false
	text = strings.ReplaceAll(text, "\r\n", "\n")
	for no, line := range strings.Split(text, "\n") {
		line = strings.TrimSpace(line)
		if i := strings.Index(line, "//"); i >= 0 {
			line = strings.TrimSpace(line[:i])
		}
		if line == "" {
			continue
		}
		switch line {
		case "---functions---":
			funcs = true
			continue
		case "---types---":
			funcs = false
			continue
		}
		if !strings.HasSuffix(line, ";") {
			return nil, fmt.Errorf("line %d: definition does not end with ';': %q", no+1, line)
		}
		body := strings.TrimSpace(strings.TrimSuffix(line, ";"))
		eq := strings.LastIndex(body, "=")
		if eq < 0 {
			return nil, fmt.Errorf("line %d: no '='", no+1)
		}
		left, right := strings.Fields(body[:eq]), strings.TrimSpace(body[eq+1:])
		if len(left) == 0 {
			return nil, fmt.Errorf("line %d: empty definition", no+1)
		}
		d := &Def{Func: funcs, Line: body, LineNo: no + 1}
		head := left[0]
		if i := strings.IndexByte(head, '#'); i >= 0 {
			id, err := strconv.ParseUint(head[i+1:], 16, 32)
			if err != nil {
				return nil, fmt.Errorf("line %d: bad id %q", no+1, head)
			}
			d.ID, d.HasID = uint32(id), true
			head = head[:i]
		}
		d.Name = head
		if !identRe.MatchString(d.Name) {
			return nil, fmt.Errorf("line %d: bad name %q", no+1, d.Name)
		}
		// builtin pseudo-definitions: `int ? = Int;`, `vector {t:Type} # [ t ] = Vector t;`
		if !d.HasID && builtinHeader[d.Name] && (len(left) > 1 && (left[1] == "?" || strings.HasPrefix(left[1], "{") || strings.Contains(left[1], "*"))) {
			continue
		}
		rt := strings.Fields(right)
		if len(rt) != 1 {
			continue // `Vector t` and similar builtin results
		}
		res, err := parseType(rt[0])
		if err != nil {
			return nil, fmt.Errorf("line %d: result: %v", no+1, err)
		}
		d.Result = res
		for _, tok := range left[1:] {
			if strings.HasPrefix(tok, "{") && strings.HasSuffix(tok, "}") {
				inner := tok[1 : len(tok)-1]
				if i := strings.IndexByte(inner, ':'); i >= 0 {
					d.TypeParams = append(d.TypeParams, inner[:i])
				}
				continue
			}
			i := strings.IndexByte(tok, ':')
			if i <= 0 {
				return nil, fmt.Errorf("line %d: bad parameter %q", no+1, tok)
			}
			p := Param{Name: tok[:i], CondBit: -1, Raw: tok}
			ts := tok[i+1:]
			if ts == "#" {
				p.Flags = true
				p.Type = Type{Name: "#", Raw: "#"}
				d.Params = append(d.Params, p)
				continue
			}
			if q := strings.IndexByte(ts, '?'); q >= 0 {
				cond := ts[:q]
				dot := strings.IndexByte(cond, '.')
				if dot < 0 {
					return nil, fmt.Errorf("line %d: bad conditional %q", no+1, tok)
				}
				bit, err := strconv.Atoi(cond[dot+1:])
				if err != nil || bit < 0 || bit > 31 {
					return nil, fmt.Errorf("line %d: bad flag bit in %q", no+1, tok)
				}
				p.CondOn, p.CondBit = cond[:dot], bit
				ts = ts[q+1:]
			}
			t, err := parseType(ts)
			if err != nil {
				return nil, fmt.Errorf("line %d: %v", no+1, err)
			}
			p.Type = t
			d.Params = append(d.Params, p)
		}
		sc.Defs = append(sc.Defs, d)
	}
	return sc, nil
}

var condTrueRe = regexp.MustCompile(` [A-Za-z0-9_]+:[A-Za-z0-9_]+\.\d+\?true`)
var idRe = regexp.MustCompile(`#[0-9a-fA-F]+`)

// CanonicalCRC computes the constructor id Telegram's tooling derives from a
// definition line: drop the written #id, bytes -> string, drop `x:flags.N?true`
// parameters, replace '<' by ' ' and delete '>', '{', '}', then CRC-32 (IEEE).
func CanonicalCRC(line string) uint32 {
	s := strings.TrimSpace(strings.TrimSuffix(strings.TrimSpace(line), ";"))
	if f := strings.Fields(s); len(f) > 0 {
		f[0] = idRe.ReplaceAllString(f[0], "")
		s = strings.Join(f, " ")
	}
	s = strings.ReplaceAll(s, ":bytes ", ":string ")
	s = strings.ReplaceAll(s, "?bytes ", "?string ")
	s = condTrueRe.ReplaceAllString(s, "")
	s = strings.ReplaceAll(s, "<", " ")
	for _, c := range []string{">", "{", "}"} {
		s = strings.ReplaceAll(s, c, "")
	}
	return crc32.ChecksumIEEE([]byte(s))
}

// NonFlagParams returns the parameters that correspond to struct fields.
func (d *Def) NonFlagParams() []Param {
	var out []Param
	for _, p := range d.Params {
		if !p.Flags {
			out = append(out, p)
		}
	}
	return out
}

// FlagsIndex: position of the flags word among all parameters (-1: none).
func (d *Def) FlagsIndex() int {
	for i, p := range d.Params {
		if p.Flags {
			return i
		}
	}
	return -1
}
