// Package authsrv is reference model R3: the server side of the MTProto
// authorisation-key exchange (core.telegram.org/mtproto/auth_key), with a fault
// injector for exactly one fault at an enumerated position. All integer <->
// bytes conversions are fixed-width. Standard library + harness references only.
package authsrv

import (
	"bytes"
	"crypto/rsa"
	"crypto/sha1"
	"encoding/binary"
	"fmt"
	"math/big"

	"github.com/xelaj/mtproto/zverif/ref/mtp1"
	"github.com/xelaj/mtproto/zverif/ref/tlw"
)

const (
	idReqPQ        = 0x60469778
	idResPQ        = 0x05162463
	idReqDH        = 0xd712e4be
	idPQInner      = 0x83c95aec
	idDHParamsOk   = 0xd0e8075c
	idDHParamsFail = 0x79cb045d
	idDHInner      = 0xb5890dba
	idSetClientDH  = 0xf5045f1f
	idClientDH     = 0x6643b654
	idDHGenOk      = 0x3bcbf734
	idDHGenRetry   = 0x46dc1fb9
	idDHGenFail    = 0xa69dae02
)

func sha(parts ...[]byte) []byte {
	h := sha1.New()
	for _, p := range parts {
		h.Write(p)
	}
	return h.Sum(nil)
}

// Fixed returns the big-endian representation of v in exactly n bytes.
func Fixed(v *big.Int, n int) []byte {
	b := v.Bytes()
	if len(b) > n {
		panic("authsrv: value does not fit")
	}
	return append(make([]byte, n-len(b)), b...)
}

// Fingerprint: lower 64 bits of SHA1 of the bare TL serialisation (n:string e:string).
func Fingerprint(k *rsa.PublicKey) int64 {
	w := &tlw.W{}
	w.Str(k.N.Bytes()).Str(big.NewInt(int64(k.E)).Bytes())
	return int64(binary.LittleEndian.Uint64(sha(w.B)[12:20]))
}

// Fault: one deviation from a conformant exchange.
type Fault struct {
	// Where: resPQ.nonce resPQ.fingerprints dh.nonce dh.server_nonce dh.kind
	// inner.nonce inner.server_nonce inner.kind inner.sha1 inner.content inner.ciphertext gen.nonce gen.server_nonce gen.hash gen.kind reply.kind@N
	Where string
	// How: flip:<bit> fresh other zero | none empty swapped | fail retry | truncate-block flip-block:<i> odd-length | unrelated
	How string
}

func (f *Fault) String() string {
	if f == nil {
		return "none"
	}
	return f.Where + "=" + f.How
}

type Config struct {
	Key         *rsa.PrivateKey
	P, Q        uint64
	PQBytes     []byte // as sent (normally 8 bytes big-endian)
	Prime       *big.Int
	G           int32
	ServerNonce []byte // 16 bytes
	A           *big.Int
	Pad         int // 0..15 padding bytes of server_DH_inner_data
	PadFill     byte
	// Fingerprints builds the offered list from the right fingerprint.
	Fingerprints func(fp int64) []int64
	Fault        *Fault
	ServerTime   int32
}

type Server struct {
	C Config

	// observed / derived
	Nonce    []byte
	NewNonce []byte
	GB       *big.Int
	AuthKey  []byte // 256 bytes
	Salt     int64
	KeyID    []byte
	Done     bool // dh_gen_ok sent
	Steps    []string
	Problems []string
	RSAClass int // leading zero bytes of the client's RSA ciphertext (as a 256-byte number)
	PBytes   []byte
	Applied  bool // the configured fault was actually injected
	QBytes   []byte
}

func New(c Config) *Server {
	if c.Fingerprints == nil {
		c.Fingerprints = func(fp int64) []int64 { return []int64{fp} }
	}
	if c.PQBytes == nil {
		c.PQBytes = Fixed(new(big.Int).Mul(new(big.Int).SetUint64(c.P), new(big.Int).SetUint64(c.Q)), 8)
	}
	return &Server{C: c}
}

func (s *Server) problem(f string, a ...any) { s.Problems = append(s.Problems, fmt.Sprintf(f, a...)) }

func (s *Server) fault(where string) string {
	if s.C.Fault != nil && s.C.Fault.Where == where {
		s.Applied = true
		return s.C.Fault.How
	}
	return ""
}

// corrupt applies a field fault to a 16-byte value.
func (s *Server) corrupt(where string, v []byte, other []byte) []byte {
	how := s.fault(where)
	out := append([]byte{}, v...)
	switch {
	case how == "":
	case how == "zero":
		out = make([]byte, len(v))
	case how == "other":
		out = append([]byte{}, other...)
	case how == "fresh":
		for i := range out {
			out[i] = byte(0x5a + 3*i)
		}
	case how == "shift-left" || how == "shift-right":
		// the same digits one byte further left / right: another number, which a comparison that drops leading
		// zero bytes and aligns both values at one end takes for the same when the value starts (ends) with 00
		if how == "shift-left" {
			out = append(append([]byte{}, v[1:]...), 0)
		} else {
			out = append([]byte{0}, v[:len(v)-1]...)
		}
		if bytes.Equal(out, v) {
			s.Applied = false
		}
	default:
		var bit int
		if n, _ := fmt.Sscanf(how, "flip:%d", &bit); n == 1 {
			out[bit/8] ^= 0x80 >> uint(bit%8)
		}
	}
	return out
}

// Handle processes one plain-text request body and returns the answer bodies.
func (s *Server) Handle(body []byte, msgID int64) [][]byte {
	if len(body) < 4 {
		s.problem("short plain body")
		return nil
	}
	id := binary.LittleEndian.Uint32(body)
	r := &tlw.R{B: body[4:]}
	step := len(s.Steps)
	if how := s.fault(fmt.Sprintf("reply.kind@%d", step)); how == "unrelated" {
		s.Steps = append(s.Steps, "unrelated-reply")
		return [][]byte{(&tlw.W{}).U32(0x347773c5).I64(1).I64(2).B} // pong
	}
	switch id {
	case idReqPQ:
		s.Steps = append(s.Steps, "req_pq")
		s.Nonce = append([]byte{}, r.B[:min(16, len(r.B))]...)
		if len(s.Nonce) != 16 {
			s.problem("req_pq: short nonce")
			return nil
		}
		fps := s.C.Fingerprints(Fingerprint(&s.C.Key.PublicKey))
		switch s.fault("resPQ.fingerprints") {
		case "none":
			fps = []int64{0x1122334455667788, -5}
		case "empty":
			fps = nil
		case "swapped":
			fp := uint64(Fingerprint(&s.C.Key.PublicKey))
			fps = []int64{int64(fp<<32 | fp>>32)}
		}
		w := &tlw.W{}
		w.U32(idResPQ).Raw(s.corrupt("resPQ.nonce", s.Nonce, s.C.ServerNonce)).Raw(s.C.ServerNonce).Str(s.C.PQBytes).VecI64(fps)
		return [][]byte{w.B}
	case idReqDH:
		s.Steps = append(s.Steps, "req_DH_params")
		nonce, sn := r.B[:16], r.B[16:32]
		r.B = r.B[32:]
		p, q := r.Str(), r.Str()
		fp := r.I64()
		enc := r.Str()
		if r.Err != nil {
			s.problem("req_DH_params: malformed")
			return nil
		}
		s.PBytes, s.QBytes = p, q
		if !bytes.Equal(nonce, s.Nonce) || !bytes.Equal(sn, s.expectedServerNonce()) {
			s.problem("req_DH_params: nonce / server_nonce do not match")
			return nil
		}
		if fp != Fingerprint(&s.C.Key.PublicKey) {
			s.problem("req_DH_params: unknown public key fingerprint %x", uint64(fp))
			return nil
		}
		pv, qv := new(big.Int).SetBytes(p), new(big.Int).SetBytes(q)
		if pv.Cmp(qv) >= 0 || new(big.Int).Mul(pv, qv).Cmp(new(big.Int).SetBytes(s.C.PQBytes)) != 0 {
			s.problem("req_DH_params: p=%v q=%v is not the ordered factorisation of pq", pv, qv)
			return nil
		}
		if len(enc) != 256 {
			s.problem("req_DH_params: encrypted_data has %d bytes, want 256", len(enc))
			return nil
		}
		s.RSAClass = 0
		for s.RSAClass < len(enc) && enc[s.RSAClass] == 0 {
			s.RSAClass++
		}
		c := new(big.Int).SetBytes(enc)
		if c.Cmp(s.C.Key.N) >= 0 {
			s.problem("req_DH_params: RSA block is not below the modulus")
			return nil
		}
		m := new(big.Int).Exp(c, s.C.Key.D, s.C.Key.N)
		if len(m.Bytes()) > 255 {
			s.problem("req_DH_params: RSA block does not decrypt to 255 bytes (ciphertext misaligned?)")
			return nil
		}
		block := Fixed(m, 255)
		data := block[20:]
		ir := &tlw.R{B: data}
		if ir.U32() != idPQInner {
			s.problem("req_DH_params: decrypted block does not hold p_q_inner_data")
			return nil
		}
		ipq, ip, iq := ir.Str(), ir.Str(), ir.Str()
		if len(ir.B) < 64 || ir.Err != nil {
			s.problem("req_DH_params: p_q_inner_data is malformed")
			return nil
		}
		inonce, isn, newNonce := ir.B[:16], ir.B[16:32], ir.B[32:64]
		used := len(data) - len(ir.B) + 64
		if !bytes.Equal(sha(data[:used]), block[:20]) {
			s.problem("req_DH_params: SHA-1 of p_q_inner_data does not match")
			return nil
		}
		if !bytes.Equal(ipq, s.C.PQBytes) || !bytes.Equal(ip, p) || !bytes.Equal(iq, q) || !bytes.Equal(inonce, s.Nonce) || !bytes.Equal(isn, s.expectedServerNonce()) {
			s.problem("req_DH_params: p_q_inner_data fields do not match the outer request")
			return nil
		}
		s.NewNonce = append([]byte{}, newNonce...)
		if how := s.fault("dh.kind"); how == "fail" {
			w := &tlw.W{}
			w.U32(idDHParamsFail).Raw(s.Nonce).Raw(s.C.ServerNonce).Raw(sha(s.NewNonce)[4:20])
			return [][]byte{w.B}
		}
		ga := new(big.Int).Exp(big.NewInt(int64(s.C.G)), s.C.A, s.C.Prime)
		in := &tlw.W{}
		in.U32(idDHInner).Raw(s.corrupt("inner.nonce", s.Nonce, s.C.ServerNonce)).Raw(s.corrupt("inner.server_nonce", s.C.ServerNonce, s.Nonce)).
			I32(s.C.G).Str(s.C.Prime.Bytes()).Str(ga.Bytes()).I32(s.C.ServerTime)
		answer := in.B
		switch s.fault("inner.kind") {
		case "pong": // a well-formed object of another kind, sealed correctly (right SHA-1 prefix)
			answer = (&tlw.W{}).U32(0x347773c5).I64(1).I64(2).B
		case "resPQ-like": // another key-exchange constructor in place of server_DH_inner_data
			answer = (&tlw.W{}).U32(0x3bcbf734).Raw(s.Nonce).Raw(s.C.ServerNonce).Raw(make([]byte, 16)).B
		case "unregistered":
			answer = (&tlw.W{}).U32(0xdeadbeef).I64(7).B
		}
		prefix := sha(answer)
		if how := s.fault("inner.sha1"); how != "" {
			var bit int
			fmt.Sscanf(how, "flip:%d", &bit)
			prefix[bit/8] ^= 0x80 >> uint(bit%8)
		}
		if s.fault("inner.content") != "" {
			answer = append([]byte{}, answer...)
			answer[len(answer)-1] ^= 1 // server_time changes, prefix is not fixed up
		}
		padLen := s.C.Pad
		if (20+len(answer)+padLen)%16 != 0 {
			padLen = (16 - (20+len(answer))%16) % 16
		}
		plain := append(append(append([]byte{}, prefix...), answer...), bytes.Repeat([]byte{s.C.PadFill}, padLen)...)
		k, iv := mtp1.TempKeys(s.NewNonce, s.C.ServerNonce)
		ct := mtp1.IGEEncrypt(k, iv, plain)
		switch how := s.fault("inner.ciphertext"); {
		case how == "truncate-block":
			ct = ct[:len(ct)-16]
		case how == "odd-length":
			ct = ct[:len(ct)-5]
		case how != "":
			var blk int
			if n, _ := fmt.Sscanf(how, "flip-block:%d", &blk); n == 1 && blk*16 < len(ct) {
				ct[blk*16+3] ^= 0x10
			} else {
				s.Applied = false // no such block
			}
		}
		w := &tlw.W{}
		w.U32(idDHParamsOk).Raw(s.corrupt("dh.nonce", s.Nonce, s.C.ServerNonce)).Raw(s.corrupt("dh.server_nonce", s.C.ServerNonce, s.Nonce)).Str(ct)
		return [][]byte{w.B}
	case idSetClientDH:
		s.Steps = append(s.Steps, "set_client_DH_params")
		nonce, sn := r.B[:16], r.B[16:32]
		r.B = r.B[32:]
		enc := r.Str()
		if r.Err != nil || !bytes.Equal(nonce, s.Nonce) || !bytes.Equal(sn, s.expectedServerNonce()) {
			s.problem("set_client_DH_params: malformed or wrong nonces")
			return nil
		}
		data, ok := mtp1.TempOpenAny(enc, s.NewNonce, s.C.ServerNonce)
		if !ok {
			s.problem("set_client_DH_params: encrypted_data cannot be opened with the temporary keys (SHA-1 prefix + data + 0..15 padding bytes expected)")
			return nil
		}
		cr := &tlw.R{B: data}
		if cr.U32() != idClientDH || len(cr.B) < 40 {
			s.problem("set_client_DH_params: not client_DH_inner_data")
			return nil
		}
		cn, csn := cr.B[:16], cr.B[16:32]
		cr.B = cr.B[32:]
		_ = cr.I64()
		gb := cr.Str()
		if cr.Err != nil || !bytes.Equal(cn, s.Nonce) || !bytes.Equal(csn, s.expectedServerNonce()) {
			s.problem("client_DH_inner_data: wrong nonces")
			return nil
		}
		s.GB = new(big.Int).SetBytes(gb)
		if s.GB.Cmp(big.NewInt(1)) <= 0 || s.GB.Cmp(new(big.Int).Sub(s.C.Prime, big.NewInt(1))) >= 0 {
			s.problem("client_DH_inner_data: g_b out of range")
			return nil
		}
		s.AuthKey = Fixed(new(big.Int).Exp(s.GB, s.C.A, s.C.Prime), 256)
		s.KeyID = sha(s.AuthKey)[12:20]
		salt := make([]byte, 8)
		for i := range salt {
			salt[i] = s.NewNonce[i] ^ s.C.ServerNonce[i]
		}
		s.Salt = int64(binary.LittleEndian.Uint64(salt))
		aux := sha(s.AuthKey)[0:8]
		hashN := func(n byte) []byte { return sha(s.NewNonce, []byte{n}, aux)[4:20] }
		w := &tlw.W{}
		switch s.fault("gen.kind") {
		case "retry":
			w.U32(idDHGenRetry).Raw(s.Nonce).Raw(s.C.ServerNonce).Raw(hashN(2))
			return [][]byte{w.B}
		case "fail":
			w.U32(idDHGenFail).Raw(s.Nonce).Raw(s.C.ServerNonce).Raw(hashN(3))
			return [][]byte{w.B}
		}
		w.U32(idDHGenOk).Raw(s.corrupt("gen.nonce", s.Nonce, s.C.ServerNonce)).Raw(s.corrupt("gen.server_nonce", s.C.ServerNonce, s.Nonce)).Raw(s.corrupt("gen.hash", hashN(1), s.Nonce))
		s.Done = true
		return [][]byte{w.B}
	}
	s.problem("unexpected plain-text request %#x", id)
	return nil
}

// expectedServerNonce: what the client must echo. If the fault changed the
// server_nonce sent in resPQ, a conformant client echoes the changed value; the
// server then rejects it (the exchange cannot continue), which is part of the fault.
func (s *Server) expectedServerNonce() []byte { return s.C.ServerNonce }
