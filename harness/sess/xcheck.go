package sess

import (
	"bytes"
	"encoding/json"
	"fmt"
	"os"
	"os/exec"
	"runtime"
	"strings"
	"sync"
	"time"

	"github.com/xelaj/mtproto/zverif/freepass"
	"github.com/xelaj/mtproto/zverif/sched"
	"github.com/xelaj/mtproto/zverif/vr"
)

// XSpec describes a schedule-exploration check: scenarios, bounds and a judge
// that is applied to every complete execution.
type XSpec struct {
	Run       *vr.Run
	Scenarios []*Scenario
	Bounds    func(sc *Scenario) sched.Bounds
	Judge     func(run *vr.Run, sc *Scenario, w *World, choices []int)
	Budget    time.Duration
	// NonTrivial decides whether an execution counts for distinct_nontrivial.
	NonTrivial func(w *World) bool
	// AllowSingleObservation names scenarios that legitimately have one outcome.
	AllowSingleObservation map[string]bool
	// Batch: many small scenarios; whole scenarios (not subtrees) are the unit of parallel work.
	Batch bool
	// FreeSet, when set, names the scenario set of the separate free-running pass (see RacePass) run by the
	// master after the exploration.
	FreeSet    string
	FreeRounds int
}

type xjob struct {
	Idx      []int  `json:"idx,omitempty"`
	Scenario string `json:"sc"`
	Prefix   []int  `json:"prefix"`
	Deadline int64  `json:"deadline"`
}

func (x *XSpec) freePass() {
	if x.FreeSet == "" {
		return
	}
	runtime.GOMAXPROCS(runtime.NumCPU())
	n := x.FreeRounds
	if n == 0 {
		n = freepass.Rounds(x.Run)
	}
	freepass.Run(x.Run, x.FreeSet, n)
}

func (x *XSpec) find(name string) *Scenario {
	for _, sc := range x.Scenarios {
		if sc.Name == name {
			return sc
		}
	}
	vr.HarnessError("unknown scenario %q", name)
	return nil
}

func (x *XSpec) visit(sc *Scenario, obs map[string]int) (func(prefix []int) sched.Exec, func(choices []int, e sched.Exec) bool) {
	var cur *World
	run := func(prefix []int) sched.Exec {
		cur = Run(sc, prefix, false)
		return sched.Exec{Points: cur.Points, Outcome: cur.Outcome}
	}
	visit := func(choices []int, e sched.Exec) bool {
		w := cur
		obs[w.Observation()]++
		nt := true
		if x.NonTrivial != nil {
			nt = x.NonTrivial(w)
		}
		x.Run.Eval(sc.Name+fmt.Sprint(choices), nt)
		x.Judge(x.Run, sc, w, choices)
		return true
	}
	return run, visit
}

// Main runs the check in master, worker or replay mode and never returns.
func (x *XSpec) Main() {
	run := x.Run
	runtime.GOMAXPROCS(1)
	if only := os.Getenv("VERIF_ONLY"); only != "" && run.ReplayPath == "" {
		// development aid: explore only the scenarios whose name contains the given text
		var keep []*Scenario
		for _, sc := range x.Scenarios {
			if strings.Contains(sc.Name, only) {
				keep = append(keep, sc)
			}
		}
		x.Scenarios = keep
		x.FreeSet = ""
	}
	if run.ReplayPath != "" {
		var c struct {
			Scenario string `json:"scenario"`
			Choices  []int  `json:"choices"`
			FreeRun  string `json:"free_run"`
		}
		run.LoadReplay(&c)
		if c.FreeRun != "" {
			// a finding of the free-running pass: the pass is run again (it samples schedules; the detector's
			// reports do not depend much on timing, wrong results may)
			x.freePass()
			run.Finish()
		}
		sc := x.find(c.Scenario)
		w := Run(sc, c.Choices, true)
		for _, t := range w.Trace {
			fmt.Println("  step:", t)
		}
		fmt.Println("observation:", w.Observation())
		fmt.Println("server emitted:", w.Srv.Emitted, "problems:", w.Srv.Problems)
		x.Judge(run, sc, w, c.Choices)
		run.Finish()
	}
	if run.IsWorker() {
		var j xjob
		if err := json.Unmarshal([]byte(run.Job()), &j); err != nil {
			vr.HarnessError("job: %v", err)
		}
		if len(j.Idx) > 0 {
			var tot sched.Stats
			per := map[string]any{}
			for _, i := range j.Idx {
				sc := x.Scenarios[i]
				b := x.Bounds(sc)
				b.Deadline = time.Unix(j.Deadline, 0)
				obs := map[string]int{}
				r, v := x.visit(sc, obs)
				st := sched.Explore(nil, b, r, v)
				tot.Add(st)
				if st.Truncated {
					run.Truncated("budget reached inside scenario " + sc.Name)
				}
				cls := map[string]bool{}
				for o := range obs {
					cls[strings.SplitN(o, ";", 2)[0]] = true
				}
				for c := range cls {
					run.Outcome(c)
				}
				per[fmt.Sprint(i)] = len(obs)
			}
			run.FinishWorker(map[string]any{"executions": tot.Executions, "points": tot.Points, "max_points": tot.MaxPoints, "obs_per_scenario": per})
		}
		sc := x.find(j.Scenario)
		b := x.Bounds(sc)
		b.Deadline = time.Unix(j.Deadline, 0)
		obs := map[string]int{}
		r, v := x.visit(sc, obs)
		st := sched.Explore(j.Prefix, b, r, v)
		if st.Truncated {
			run.Truncated("budget reached inside scenario " + sc.Name)
		}
		run.FinishWorker(map[string]any{"executions": st.Executions, "points": st.Points, "max_points": st.MaxPoints, "obs": obs})
	}

	// ---- master
	deadline := time.Now().Add(x.Budget)
	workers := runtime.NumCPU()
	if workers > 16 {
		workers = 16
	}
	states := map[string]bool{}
	var totalExec, totalPoints int64
	if x.Batch {
		x.batchMaster(deadline, workers)
	}
	for _, sc := range x.Scenarios {
		b := x.Bounds(sc)
		obs := map[string]int{}
		var st sched.Stats
		r, v := x.visit(sc, obs)
		root := r(nil)
		st.Executions, st.Points, st.MaxPoints = 1, int64(len(root.Points)), len(root.Points)
		v(sched.Choices(root), root)
		if len(x.Scenarios) <= 12 || sc == x.Scenarios[0] {
			w := Run(sc, nil, true)
			tr := w.Trace
			if len(tr) > 40 {
				tr = append(append([]string{}, tr[:40]...), fmt.Sprintf("... (%d steps in all)", len(w.Trace)))
			}
			run.Sample(map[string]any{"scenario": sc.Name, "choices": sched.Choices(root), "schedule": "default (all choices 0)", "steps": tr, "observation": w.Observation()})
		}
		// determinism of the default schedule
		o1 := Run(sc, nil, false).Observation()
		if o2 := Run(sc, nil, false).Observation(); o1 != o2 && run.Violations() > 0 {
			// state leaking from one execution into the next (a process-global cache, say) makes replays differ;
			// with violations already reported this is part of the defect, not a harness fault
			run.Truncated("replay of the default schedule of " + sc.Name + " differs between executions (process-global state?)")
		} else if o1 != o2 {
			vr.HarnessError("nondeterminism in scenario %s: the default schedule gave two observations\n%s\n%s", sc.Name, o1, o2)
		}
		jobs := sched.Children(root, 0, b)
		var mu sync.Mutex
		var wg sync.WaitGroup
		sem := make(chan struct{}, workers)
		var lastPrefix []int
		for _, p := range jobs {
			p := p
			lastPrefix = p
			wg.Add(1)
			sem <- struct{}{}
			go func() {
				defer wg.Done()
				defer func() { <-sem }()
				jb, _ := json.Marshal(xjob{Scenario: sc.Name, Prefix: p, Deadline: deadline.Unix()})
				cmd := exec.Command(os.Args[0], "--tier", run.Tier, "--job", string(jb))
				cmd.Env = append(os.Environ(), "GOMAXPROCS=1")
				var out, errb bytes.Buffer
				cmd.Stdout, cmd.Stderr = &out, &errb
				if err := cmd.Run(); err != nil {
					vr.HarnessError("worker for %s prefix %v failed: %v\n%s", sc.Name, p, err, tail(errb.String(), 3000))
				}
				line := lastLine(out.Bytes())
				mu.Lock()
				defer mu.Unlock()
				extra := run.Merge(line)
				st.Executions += int64(num(extra["executions"]))
				st.Points += int64(num(extra["points"]))
				if mp := int(num(extra["max_points"])); mp > st.MaxPoints {
					st.MaxPoints = mp
				}
				if om, ok := extra["obs"].(map[string]any); ok {
					for k, n := range om {
						obs[k] += int(num(n))
					}
				}
			}()
		}
		wg.Wait()
		// determinism of a deviating schedule: replay one child prefix twice
		if lastPrefix != nil {
			a, bb := Run(sc, lastPrefix, false), Run(sc, lastPrefix, false)
			if (a.Observation() != bb.Observation() || len(a.Points) != len(bb.Points)) && run.Violations() > 0 {
				run.Truncated("replay under a prefix differs between executions of " + sc.Name)
			} else if a.Observation() != bb.Observation() || len(a.Points) != len(bb.Points) {
				vr.HarnessError("nondeterminism in scenario %s under prefix %v", sc.Name, lastPrefix)
			}
		}
		totalExec += st.Executions
		totalPoints += st.Points
		for o := range obs {
			states[sc.Name+"|"+o] = true
			run.Outcome(strings.SplitN(o, ";", 2)[0])
		}
		run.Set("scenario:"+sc.Name, map[string]any{"executions": st.Executions, "scheduling_points": st.Points,
			"max_points_per_execution": st.MaxPoints, "distinct_observations": len(obs), "level1_subtrees": len(jobs),
			"bounds": map[string]int{"delays": b.Delays, "preemptions": b.Preemptions, "server_deviations": b.EnvDev}})
		// (vacuity guard; it says nothing when violations were found: code that fails every execution in the
		// same way also gives one observation)
		if len(obs) < 2 && st.Executions > 1 && !x.AllowSingleObservation[sc.Name] && run.Violations() == 0 {
			vr.HarnessError("scenario %s: %d executions produced a single observation vector: nothing collided (vacuous harness)", sc.Name, st.Executions)
		}
	}
	run.Set("states", len(states))
	run.Set("transitions", totalPoints)
	run.Set("traces_validated_against_impl", totalExec)
	run.Set("explanation", "states = distinct (scenario, final observation vector) pairs; transitions = scheduling points executed; every trace is an execution of the real client code under the controlled scheduler")
	x.freePass()
	run.Finish()
}

func num(v any) float64 {
	f, _ := v.(float64)
	return f
}

func lastLine(b []byte) []byte {
	b = bytes.TrimRight(b, "\n")
	if i := bytes.LastIndexByte(b, '\n'); i >= 0 {
		return b[i+1:]
	}
	return b
}

func tail(s string, n int) string {
	if len(s) > n {
		return s[len(s)-n:]
	}
	return s
}

func (x *XSpec) batchMaster(deadline time.Time, workers int) {
	run := x.Run
	n := len(x.Scenarios)
	chunk := n/(workers*6) + 1
	var mu sync.Mutex
	var wg sync.WaitGroup
	sem := make(chan struct{}, workers)
	var st sched.Stats
	distinctObs := 0
	for lo := 0; lo < n; lo += chunk {
		hi := lo + chunk
		if hi > n {
			hi = n
		}
		idx := make([]int, 0, hi-lo)
		for i := lo; i < hi; i++ {
			idx = append(idx, i)
		}
		wg.Add(1)
		sem <- struct{}{}
		go func() {
			defer wg.Done()
			defer func() { <-sem }()
			jb, _ := json.Marshal(xjob{Idx: idx, Deadline: deadline.Unix()})
			cmd := exec.Command(os.Args[0], "--tier", run.Tier, "--job", string(jb))
			cmd.Env = append(os.Environ(), "GOMAXPROCS=1")
			var out, errb bytes.Buffer
			cmd.Stdout, cmd.Stderr = &out, &errb
			if err := cmd.Run(); err != nil {
				vr.HarnessError("batch worker %v failed: %v\n%s", idx, err, tail(errb.String(), 3000))
			}
			mu.Lock()
			defer mu.Unlock()
			extra := run.Merge(lastLine(out.Bytes()))
			st.Executions += int64(num(extra["executions"]))
			st.Points += int64(num(extra["points"]))
			if mp := int(num(extra["max_points"])); mp > st.MaxPoints {
				st.MaxPoints = mp
			}
			if per, ok := extra["obs_per_scenario"].(map[string]any); ok {
				for _, v := range per {
					distinctObs += int(num(v))
				}
			}
		}()
	}
	wg.Wait()
	// determinism: first and last scenario, default schedule, twice
	for _, sc := range []*Scenario{x.Scenarios[0], x.Scenarios[n-1]} {
		if a, b := Run(sc, nil, false).Observation(), Run(sc, nil, false).Observation(); a != b && run.Violations() == 0 {
			vr.HarnessError("nondeterminism in scenario %s", sc.Name)
		}
	}
	run.Set("scenarios", n)
	run.Set("states", distinctObs)
	run.Set("transitions", st.Points)
	run.Set("traces_validated_against_impl", st.Executions)
	run.Set("max_points_per_execution", st.MaxPoints)
	run.Set("explanation", "states = sum over histories of distinct final observation vectors; transitions = scheduling points executed; every trace is an execution of the real client code under the controlled scheduler")
	x.freePass()
	run.Finish()
}
