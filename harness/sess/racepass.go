package sess

import (
	"bufio"
	"bytes"
	"context"
	"encoding/json"
	"fmt"
	"os"
	"os/exec"
	"path/filepath"
	"regexp"
	"sort"
	"strings"
	"time"

	"github.com/xelaj/mtproto/zverif/vr"
)

// RacePass runs the separate free-running pass for a session check: $VERIF_BUILD/racepass (built with -race by
// the check driver) executes the scenario set of this property with real goroutines on all cores.
//
//   - A wrong call result, a panic in a caller or the death of the process (runtime fatal error such as
//     "concurrent map writes") in a free run is a demonstrated failure of the property: VIOLATION.
//   - A report of the race detector whose access is a map operation (runtime.mapaccess/mapassign/mapdelete on
//     top of the stack) is a VIOLATION too: the runtime terminates the process when such accesses overlap.
//   - Any other report of the race detector is recorded in the evidence and printed as a DIAGNOSTIC line. It
//     is not a verdict on the property (an unordered pair of word-sized accesses does not by itself falsify
//     the statement), but it is exactly what the cooperative scheduler cannot see.
//   - Runs that hit the internal deadline are counted, never judged (no wall-clock oracle).
func RacePass(run *vr.Run, set string, rounds int) {
	bin := filepath.Join(os.Getenv("VERIF_BUILD"), "racepass")
	if _, err := os.Stat(bin); err != nil {
		run.Set("free_running_pass", "not run: "+bin+" missing")
		return
	}
	logBase := filepath.Join(os.Getenv("VERIF_BUILD"), "racelog")
	old, _ := filepath.Glob(logBase + ".*")
	for _, f := range old {
		os.Remove(f)
	}
	ctx, cancel := context.WithTimeout(context.Background(), 10*time.Minute)
	defer cancel()
	cmd := exec.CommandContext(ctx, bin, "--set", set, "--rounds", fmt.Sprint(rounds))
	cmd.Env = append(os.Environ(), "GORACE=halt_on_error=0 exitcode=0 log_path="+logBase)
	var out, errb bytes.Buffer
	cmd.Stdout, cmd.Stderr = &out, &errb
	err := cmd.Run()
	info := map[string]any{"set": set, "rounds_per_scenario": rounds, "kind": "sampling of schedules with real parallelism (supplementary; the deciding exploration is the exhaustive one above)"}
	var scen []map[string]any
	sc := bufio.NewScanner(&out)
	sc.Buffer(make([]byte, 1<<20), 1<<20)
	for sc.Scan() {
		var rep struct {
			Scenario string   `json:"scenario"`
			Rounds   int      `json:"rounds"`
			Timeouts int      `json:"timeouts"`
			Wrong    []string `json:"wrong"`
			Problems []string `json:"problems"`
		}
		if json.Unmarshal(sc.Bytes(), &rep) != nil {
			continue
		}
		scen = append(scen, map[string]any{"scenario": rep.Scenario, "rounds": rep.Rounds, "not_judged_deadline": rep.Timeouts, "wrong": rep.Wrong})
		for _, w := range rep.Wrong {
			run.Violation("free-run|"+vr.MsgClass(w), fmt.Sprintf("free-running pass, scenario %q: %s", rep.Scenario, w), map[string]any{"free_run": set, "scenario": rep.Scenario})
		}
		for _, p := range rep.Problems {
			run.Violation("free-run|stream|"+vr.MsgClass(p), fmt.Sprintf("free-running pass, scenario %q: the reference server rejects the client's stream: %s", rep.Scenario, p), map[string]any{"free_run": set, "scenario": rep.Scenario})
		}
	}
	info["scenarios"] = scen
	if ctx.Err() != nil {
		info["truncated"] = "deadline of the pass reached"
	} else if err != nil {
		// the process died: a runtime fatal error or an unrecovered panic in a client goroutine
		msg := errb.String()
		first := msg
		if i := strings.Index(msg, "fatal error:"); i >= 0 {
			first = msg[i:]
		} else if i := strings.Index(msg, "panic:"); i >= 0 {
			first = msg[i:]
		}
		if i := strings.IndexByte(first, '\n'); i >= 0 {
			first = first[:i]
		}
		run.Violation("free-run|process-died|"+vr.MsgClass(first)+"|"+firstRepoFrame(msg), fmt.Sprintf("free-running pass: the process died: %s (%v)", first, err), map[string]any{"free_run": set, "stderr_head": head(msg, 1500)})
	}
	races, onMap := parseRaces(logBase)
	var sites []string
	for k := range races {
		sites = append(sites, k)
	}
	sort.Strings(sites)
	for _, k := range sites {
		if onMap[k] {
			// unsynchronised concurrent access to a Go map is not a benign race: the runtime terminates the
			// process ("fatal error: concurrent map writes" / "concurrent map read and map write", not
			// recoverable) whenever it observes the overlap, so every caller loses its answer
			run.Violation("free-run|concurrent-map-access|"+k, fmt.Sprintf("free-running pass: unsynchronised concurrent access to a map (%s, %d reports): the Go runtime kills the process when the accesses overlap", k, races[k]),
				map[string]any{"free_run": set, "site": k})
			continue
		}
		fmt.Printf("DIAGNOSTIC data-race property=%s %s (x%d)\n", run.ID, k, races[k])
	}
	info["data_race_sites_reported_by_the_go_race_detector"] = sites
	run.Set("free_running_pass", info)
}

func head(s string, n int) string {
	if len(s) > n {
		return s[:n]
	}
	return s
}

var frameRe = regexp.MustCompile(`^\s+(github\.com/xelaj/mtproto[^\s(]*(?:\(\*?[A-Za-z0-9_]+\))?[^\s(]*)\(`)

func firstRepoFrame(stack string) string {
	for _, l := range strings.Split(stack, "\n") {
		if m := frameRe.FindStringSubmatch(l); m != nil && !strings.Contains(m[1], "/zverif/") {
			f := strings.TrimPrefix(m[1], "github.com/xelaj/mtproto/")
			return strings.TrimPrefix(f, "github.com/xelaj/")
		}
	}
	return "?"
}

// parseRaces reads the detector's log files and returns site -> count, a site being the pair of innermost
// repository functions of the two conflicting accesses.
func parseRaces(logBase string) (map[string]int, map[string]bool) {
	out := map[string]int{}
	onMap := map[string]bool{}
	files, _ := filepath.Glob(logBase + ".*")
	for _, f := range files {
		b, err := os.ReadFile(f)
		if err != nil {
			continue
		}
		for _, blk := range strings.Split(string(b), "==================") {
			if !strings.Contains(blk, "DATA RACE") {
				continue
			}
			// the two access stacks are the first two paragraphs
			paras := strings.Split(strings.TrimSpace(blk), "\n\n")
			var fr []string
			isMap := false
			for _, p := range paras {
				if strings.Contains(p, "Goroutine ") && strings.Contains(p, "created at") {
					break
				}
				fr = append(fr, firstRepoFrame(p))
				if l := strings.Split(p, "\n"); len(l) > 1 && strings.HasPrefix(strings.TrimSpace(l[1]), "runtime.map") {
					isMap = true // the access itself is a map operation (mapaccess / mapassign / mapdelete / mapiter)
				}
			}
			if len(fr) < 2 || (fr[0] == "?" && fr[1] == "?") {
				continue // both accesses in harness or library code
			}
			sort.Strings(fr[:2])
			k := fr[0] + " <-> " + fr[1]
			out[k]++
			if isMap {
				onMap[k] = true
			}
		}
	}
	return out, onMap
}
