package sess

import (
	"crypto/rsa"
	"fmt"
	mrand "math/rand"
	"net"
	"sync"
	"sync/atomic"
	"time"

	"github.com/xelaj/mtproto"
	"github.com/xelaj/mtproto/internal/session"
	"github.com/xelaj/mtproto/internal/transport"
	"github.com/xelaj/mtproto/zverif/ref/authsrv"
	"github.com/xelaj/mtproto/zverif/ref/mtp1"
	"github.com/xelaj/mtproto/zverif/ref/rpcsrv"
	"github.com/xelaj/mtproto/zverif/vr"
)

// RunFree executes a scenario with real goroutines and real parallelism over the in-memory network (no
// scheduler). It is the body of the separate race-detector pass: the cooperative scheduler's hand-offs are
// happens-before edges, so unsynchronised accesses are invisible to it and are looked for here instead, with
// the binary built with -race. Server choices (order, grouping, compression, scripted events, deferral) are
// drawn from a seeded generator. Only Callers (without After), Opt, Script, Salt, StoredSalt, RotateBefore,
// Fresh and Handler of the scenario are used. timedOut: the internal deadline passed (not judged).
func RunFree(sc *Scenario, seed int64, timeout time.Duration) (w *World, timedOut bool) {
	ws, to := RunFreeMulti([]*Scenario{sc}, seed, timeout)
	return ws[0], to
}

// RunFreeMulti runs several clients at once in one process, each against its own network and reference
// server (nothing of the harness is shared between them, so the only memory two clients have in common is the
// library's own package-level state).
func RunFreeMulti(scs []*Scenario, seed int64, timeout time.Duration) (ws []*World, timedOut bool) {
	type client struct {
		w       *World
		sc      *Scenario
		host    string
		pub     *rsa.PublicKey
		stop    chan struct{}
		flusher sync.WaitGroup
	}
	var cl []*client
	byHost := map[string]*Net{}
	overTCP := map[string]*World{}
	var dialMu sync.Mutex
	for i, sc := range scs {
		w := &World{Sc: sc, Store: &MemStore{}, Warn: make(chan error, 4096)}
		w.Net = NewNet(nil)
		addr := fmt.Sprintf("10.0.%d.1:443", i)
		key := TestKey()
		if i > 0 {
			key = append([]byte{}, key...)
			for k := range key {
				key[k] ^= byte(17 * i)
			}
		}
		w.Srv = rpcsrv.New(key, sc.Salt)
		w.Srv.Opt = sc.Opt
		w.Srv.Script = append([]rpcsrv.Event{}, sc.Script...)
		w.Srv.RotateBefore = sc.RotateBefore
		w.Net.Servers[addr] = w.Srv
		byHost[addr] = w.Net
		if sc.OverTCP {
			w.RelayLast = &atomic.Int64{}
			overTCP[addr] = w
		}
		stored := sc.Salt
		if sc.StoredSalt != nil {
			stored = *sc.StoredSalt
		}
		w.Store.Cur = &session.Session{Key: key, Hash: mtp1.KeyID(key), Salt: stored, Hostname: addr}
		c := &client{w: w, sc: sc, host: "unused:1", stop: make(chan struct{})}
		if sc.Fresh != nil {
			c.host = addr
			w.Store.Cur = nil
			w.Auth = authsrv.New(*sc.Fresh)
			w.Srv.Key = nil
			c.pub = &sc.Fresh.Key.PublicKey
			w.Srv.Plain = func(body []byte, msgID int64) [][]byte {
				out := w.Auth.Handle(body, msgID)
				if w.Auth.Done {
					w.Srv.Key, w.Srv.Salt = w.Auth.AuthKey, w.Auth.Salt
				}
				return out
			}
		}
		rng := mrand.New(mrand.NewSource(seed*31 + int64(i))) // used under this network's lock only
		drain := func(c *Conn, all bool) {
			for c.live() {
				m := c.Srv.Menu()
				if len(m) == 0 || (!all && rng.Intn(4) == 0) {
					return
				}
				if len(c.Srv.Queue) == 0 && !all && rng.Intn(2) == 0 {
					return // only scripted events left: sometimes later
				}
				c.Do(m[rng.Intn(len(m))])
			}
		}
		w.Net.Auto = func(c *Conn) {
			if rng.Intn(3) != 0 {
				drain(c, false)
			}
		}
		c.flusher.Add(1)
		go func() { // whatever was deferred goes out a little later
			defer c.flusher.Done()
			for {
				select {
				case <-c.stop:
					return
				case <-time.After(150 * time.Microsecond):
				}
				w.Net.mu.Lock()
				if n := len(w.Net.Conns); n > 0 {
					cn := w.Net.Conns[n-1]
					if len(cn.Srv.Queue) > 0 || rng.Intn(8) == 0 {
						drain(cn, len(cn.Srv.Queue) > 0)
						w.Net.cond.Broadcast()
					}
				}
				w.Net.mu.Unlock()
			}
		}()
		for ci := range sc.Callers {
			for oi, call := range sc.Callers[ci] {
				w.Results = append(w.Results, &CallResult{Caller: ci, Op: oi, Call: call})
			}
		}
		cl = append(cl, c)
		ws = append(ws, w)
	}
	transport.VerifDial = func(cfg transport.TCPConnConfig) (transport.Conn, error) {
		if n, ok := byHost[cfg.Host]; ok && overTCP[cfg.Host] != nil {
			return dialOverTCP(n, cfg, &dialMu, overTCP[cfg.Host].RelayLast)
		}
		if n, ok := byHost[cfg.Host]; ok {
			return n.dial(cfg)
		}
		return nil, fmt.Errorf("dialing tcp: connect %s: connection refused", cfg.Host)
	}
	defer func() { transport.VerifDial = nil }()
	defer func() {
		for _, c := range cl {
			close(c.stop)
			c.flusher.Wait()
		}
	}()

	deadline := time.Now().Add(timeout)
	var all sync.WaitGroup
	var tmu sync.Mutex
	for _, c := range cl {
		c := c
		all.Add(1)
		go func() {
			defer all.Done()
			if runFreeClient(c.w, c.sc, c.host, c.pub, deadline) {
				tmu.Lock()
				timedOut = true
				tmu.Unlock()
			}
		}()
	}
	all.Wait()
	return ws, timedOut
}

// dialOverTCP: the client gets the real tcpConn of transport.NewTCP on a loopback socket; a relay moves the bytes
// between the other end of that socket and the in-memory connection to the reference server. The server's bytes
// are written in pieces of 64 bytes with a short pause, so that an answer reaches the client in several reads.
func dialOverTCP(n *Net, cfg transport.TCPConnConfig, mu *sync.Mutex, last *atomic.Int64) (transport.Conn, error) {
	last.Store(time.Now().UnixNano())
	mem, err := n.dial(cfg)
	if err != nil {
		return nil, err
	}
	mc := mem.(*Conn)
	ln, err := net.Listen("tcp", "127.0.0.1:0")
	if err != nil {
		vr.HarnessError("loopback listener: %v", err)
	}
	go func() {
		defer ln.Close()
		pc, err := ln.Accept()
		if err != nil {
			return
		}
		if tc, ok := pc.(*net.TCPConn); ok {
			tc.SetNoDelay(true)
		}
		go func() { // server -> client
			defer pc.Close()
			for {
				b, ok := mc.Take()
				if !ok {
					return
				}
				for len(b) > 0 {
					k := min(64, len(b))
					if _, err := pc.Write(b[:k]); err != nil {
						return
					}
					b = b[k:]
					last.Store(time.Now().UnixNano())
					time.Sleep(100 * time.Microsecond)
				}
			}
		}()
		buf := make([]byte, 4096) // client -> server
		for {
			k, err := pc.Read(buf)
			if k > 0 {
				last.Store(time.Now().UnixNano())
				mc.Write(buf[:k])
			}
			if err != nil {
				mc.Close()
				return
			}
		}
	}()
	mu.Lock()
	defer mu.Unlock()
	seam := transport.VerifDial
	transport.VerifDial = nil
	defer func() { transport.VerifDial = seam }()
	real := cfg
	real.Host = ln.Addr().String()
	return transport.NewTCP(real)
}

func runFreeClient(w *World, sc *Scenario, host string, pub *rsa.PublicKey, deadline time.Time) (timedOut bool) {
	m, err := mtproto.NewMTProto(mtproto.Config{SessionStorage: w.Store, ServerHost: host, PublicKey: pub})
	if err != nil {
		w.ConnErr = err
		return false
	}
	m.Warnings = w.Warn
	var hmu sync.Mutex
	if sc.Handler {
		m.AddCustomServerRequestHandler(func(i any) bool {
			hmu.Lock()
			w.Handled = append(w.Handled, fmt.Sprintf("%T", i))
			hmu.Unlock()
			return true
		})
	}
	w.M = m
	connDone := make(chan struct{})
	go func() {
		defer close(connDone)
		defer func() {
			if r := recover(); r != nil {
				w.ConnPanic = fmt.Sprint(r)
				w.ConnPanicFrame = vr.RepoFrame(3)
			}
		}()
		w.ConnErr = m.CreateConnection()
		w.ConnReturned = true
	}()
	select {
	case <-connDone:
	case <-time.After(time.Until(deadline)):
		return true
	}
	if w.ConnErr != nil || w.ConnPanic != "" {
		return false
	}
	var wg sync.WaitGroup
	for ci := range sc.Callers {
		ci := ci
		wg.Add(1)
		go func() {
			defer wg.Done()
			for oi := range sc.Callers[ci] {
				res := w.result(ci, oi)
				func() {
					defer func() {
						if r := recover(); r != nil {
							res.Panic = fmt.Sprint(r)
							res.Frame = vr.RepoFrame(3)
						}
					}()
					v, err := DoCall(m, res.Call)
					res.Val, res.Err, res.Returned = v, err, true
				}()
				if res.Panic != "" {
					return
				}
			}
		}()
	}
	done := make(chan struct{})
	go func() { wg.Wait(); close(done) }()
	select {
	case <-done:
	case <-time.After(time.Until(deadline)):
		timedOut = true
	}
	if !timedOut {
		// let acknowledgements and scripted events go through before the client is stopped
		for i := 0; i < 200; i++ {
			w.Net.mu.Lock()
			idle := true
			if n := len(w.Net.Conns); n > 0 {
				c := w.Net.Conns[n-1]
				idle = len(c.Srv.Queue) == 0 && len(c.Srv.Script) == 0 && (len(c.in) == 0 && c.Waiting > 0 || !c.live())
			}
			w.Net.mu.Unlock()
			if idle {
				break
			}
			time.Sleep(100 * time.Microsecond)
		}
	}
	stopped := make(chan struct{})
	go func() { m.Disconnect(); close(stopped) }()
	select {
	case <-stopped:
	case <-time.After(2 * time.Second):
		timedOut = true
	}
	return timedOut
}
