package sess

import (
	"crypto/rsa"
	"fmt"
	"reflect"
	"sort"
	"strings"
	"sync/atomic"

	"github.com/xelaj/mtproto"
	"github.com/xelaj/mtproto/internal/encoding/tl"
	"github.com/xelaj/mtproto/internal/session"
	"github.com/xelaj/mtproto/zverif/ref/authsrv"
	"github.com/xelaj/mtproto/zverif/ref/mtp1"
	"github.com/xelaj/mtproto/zverif/ref/rpcsrv"
	"github.com/xelaj/mtproto/zverif/sched"
	"github.com/xelaj/mtproto/zverif/vr"
	"github.com/xelaj/mtproto/zverif/vrand"
)

// VReq / VRes are the harness's test request and result objects.
type VReq struct {
	Tag  int32
	Kind int32
}

func (*VReq) CRC() uint32 { return rpcsrv.ReqID }

type VRes struct{ Tag int32 }

func (*VRes) CRC() uint32 { return rpcsrv.ResID }

func init() { tl.RegisterObjects(&VReq{}, &VRes{}) }

const Addr = "10.0.0.1:443"

func TestKey() []byte {
	k := make([]byte, 256)
	for i := range k {
		k[i] = byte(i*9 + 4)
	}
	return k
}

type Call struct {
	Tag  int32
	Kind rpcsrv.Kind
	// After, when set, delays the call until the condition holds on the world.
	After func(w *World) bool `json:"-"`
	// MayFailOnConnLoss: the call races with a connection loss; an error return is then acceptable.
	MayFailOnConnLoss bool
}

type CallResult struct {
	Caller   int
	Op       int
	Call     Call
	Returned bool
	Val      any
	Err      error
	Panic    string
	Frame    string
}

type Scenario struct {
	Name    string
	Callers [][]Call
	Opt     rpcsrv.Options
	Script  []rpcsrv.Event
	Salt    int64
	// StoredSalt differs from Salt when the server has rotated while the client was away.
	StoredSalt   *int64
	RotateBefore map[int]int64
	// Fresh: no stored session; the client runs the key exchange against reference server R3 first.
	Fresh       *authsrv.Config
	Seed        uint64 // owned random stream of the client (only with Fresh or OwnRandom)
	OwnRandom   bool
	NoOwnRandom bool           // with Fresh: leave the random sources alone (C19)
	ClockStart  int64          // virtual clock start (unix nanos); 0 = default
	ClockFrozen bool           // the clock does not advance between readings
	PublicKey   *rsa.PublicKey // overrides the key given to the client (default: the server's)
	Handler     bool           // register a custom server-request handler that accepts everything
	NoWarnings  bool           // the application did not set a Warnings channel (it is optional)
	// Ticks: how many times the keep-alive ticker of the client fires within the horizon; when (between which
	// steps of the other threads) is a choice of the explorer. The server answers a ping with a plain pong, which
	// the client ignores, so the pinging goroutine then waits for a reply forever; that is outside the twenty
	// statements and is tolerated (World.Stalled), everything else is judged as usual.
	Ticks int
	// WriteFaults: see Net.WriteFaults. A call whose own request could not be written returns that error; the
	// one-shot goroutine that feeds the reply of a message nobody answers (msgs_ack) stays blocked when that
	// message could not be written - a leak of the unchanged library that no statement speaks about.
	WriteFaults int
	// OverTCP (free-running mode only): the client dials a real loopback socket through transport.NewTCP; a relay
	// carries the bytes between that socket and the in-memory server, handing the server's bytes over in pieces
	// of 64 bytes
	OverTCP bool
	Setup   func(w *World)
	// AfterConnect runs in the main thread right after CreateConnection returned.
	AfterConnect        func(w *World)
	SaltAfterExchange   func(w *World)
	AfterConnectFailure func(w *World)
	// ConnectPanic: a panic inside CreateConnection in the caller's goroutine is recorded here.
}

type World struct {
	S                         *sched.S
	Net                       *Net
	Srv                       *rpcsrv.Server
	Store                     *MemStore
	M                         *mtproto.MTProto
	Sc                        *Scenario
	Results                   []*CallResult
	ConnErr                   error
	ConnPanic, ConnPanicFrame string
	ConnReturned              bool
	Warn                      chan error
	Handled                   []string
	Outcome                   sched.Outcome
	Fatal                     *sched.Fatal
	Blocked                   []sched.BlockedInfo
	Points                    []sched.Point
	Trace                     []string
	Extra                     map[string]any
	Auth                      *authsrv.Server
	TicksFired                int
	// RelayLast (OverTCP): unix nanoseconds of the last byte the relay moved in either direction
	RelayLast *atomic.Int64
}

// Expected is what the statement promises for a call.
func Expected(c Call) (val any, isErr bool, code int, msg string) {
	switch c.Kind {
	case rpcsrv.KObj:
		return &VRes{Tag: c.Tag}, false, 0, ""
	case rpcsrv.KBool:
		return c.Tag%2 == 0, false, 0, ""
	case rpcsrv.KVecInt:
		return []int32{c.Tag, c.Tag + 1000, -c.Tag}, false, 0, ""
	case rpcsrv.KVecObj:
		return []*VRes{{Tag: c.Tag}, {Tag: c.Tag + 1000}}, false, 0, ""
	case rpcsrv.KErr:
		return nil, true, 400 + int(c.Tag)%100, fmt.Sprintf("TEST_ERROR_%d", c.Tag)
	case rpcsrv.KVecIntBig:
		return rpcsrv.BigVec(c.Tag), false, 0, ""
	case rpcsrv.KVecIntSame:
		return rpcsrv.SameVec(c.Tag), false, 0, ""
	}
	return nil, false, 0, ""
}

// DoCall issues one request through the public API.
func DoCall(m *mtproto.MTProto, c Call) (any, error) {
	req := &VReq{Tag: c.Tag, Kind: int32(c.Kind)}
	switch c.Kind {
	case rpcsrv.KVecInt, rpcsrv.KVecIntBig, rpcsrv.KVecIntSame:
		return m.MakeRequestWithHintToDecoder(req, reflect.TypeOf([]int32{}))
	case rpcsrv.KVecObj:
		return m.MakeRequestWithHintToDecoder(req, reflect.TypeOf([]*VRes{}))
	}
	return m.MakeRequest(req)
}

// CheckResult compares a call's outcome with the statement; "" = as promised.
func CheckResult(r *CallResult) string {
	if r.Panic != "" {
		return "caller-panic"
	}
	if r.Call.MayFailOnConnLoss && r.Returned && r.Err != nil && strings.Contains(r.Err.Error(), "closed network connection") {
		return ""
	}
	if r.Returned && r.Err != nil && strings.Contains(r.Err.Error(), "injected write failure") {
		return "" // its own request could not be written
	}
	if !r.Returned {
		return "never-returned"
	}
	want, isErr, code, msg := Expected(r.Call)
	if isErr {
		e, ok := r.Err.(*mtproto.ErrResponseCode)
		if !ok {
			if r.Err == nil {
				return "rpc-error-not-delivered"
			}
			return "rpc-error-wrong-type"
		}
		if e.Code != code || e.Message != msg {
			return "rpc-error-wrong-fields"
		}
		return ""
	}
	if r.Err != nil {
		return "unexpected-error"
	}
	if reflect.TypeOf(r.Val) != reflect.TypeOf(want) {
		return "wrong-type:" + fmt.Sprintf("%T", r.Val)
	}
	if !reflect.DeepEqual(r.Val, want) {
		return "wrong-value"
	}
	return ""
}

// Run executes the scenario once under the scheduler with the given choice prefix.
func Run(sc *Scenario, prefix []int, tracing bool) *World {
	s := sched.New(prefix)
	s.Tracing = tracing
	s.UnlockYields = true
	w := &World{S: s, Sc: sc, Store: &MemStore{}, Warn: make(chan error, 64)}
	if sc.ClockStart != 0 {
		s.SetClock(sc.ClockStart)
	}
	s.ClockFrozen = sc.ClockFrozen
	w.Net = NewNet(s)
	w.Net.WriteFaults = sc.WriteFaults
	key := TestKey()
	w.Srv = rpcsrv.New(key, sc.Salt)
	w.Srv.Opt = sc.Opt
	w.Srv.Script = append([]rpcsrv.Event{}, sc.Script...)
	w.Srv.Clock = s.Clock
	w.Srv.RotateBefore = sc.RotateBefore
	w.Net.Servers[Addr] = w.Srv
	stored := sc.Salt
	if sc.StoredSalt != nil {
		stored = *sc.StoredSalt
	}
	w.Store.Cur = &session.Session{Key: key, Hash: mtp1.KeyID(key), Salt: stored, Hostname: Addr}
	var pub *rsa.PublicKey
	if sc.Fresh != nil {
		w.Store.Cur = nil
		w.Auth = authsrv.New(*sc.Fresh)
		w.Srv.Key = nil
		pub = &sc.Fresh.Key.PublicKey
		if sc.PublicKey != nil {
			pub = sc.PublicKey
		}
		w.Srv.Plain = func(body []byte, msgID int64) [][]byte {
			out := w.Auth.Handle(body, msgID)
			if w.Auth.Done {
				w.Srv.Key, w.Srv.Salt = w.Auth.AuthKey, w.Auth.Salt
				if sc.SaltAfterExchange != nil {
					sc.SaltAfterExchange(w)
				}
			}
			return out
		}
	}
	if (sc.Fresh != nil && !sc.NoOwnRandom) || sc.OwnRandom {
		vrand.Own(sc.Seed)
		defer vrand.Release()
	}
	if sc.Setup != nil {
		sc.Setup(w)
	}
	w.Net.Install()
	defer w.Net.Uninstall()

	for ci := range sc.Callers {
		for oi, c := range sc.Callers[ci] {
			w.Results = append(w.Results, &CallResult{Caller: ci, Op: oi, Call: c})
		}
	}
	s.Go("main", func() {
		host := "unused:1"
		if sc.Fresh != nil {
			host = Addr
		}
		m, err := mtproto.NewMTProto(mtproto.Config{SessionStorage: w.Store, ServerHost: host, PublicKey: pub})
		if err != nil {
			w.ConnErr = err
			return
		}
		if !sc.NoWarnings {
			m.Warnings = w.Warn
		}
		if sc.Handler {
			m.AddCustomServerRequestHandler(func(i any) bool {
				w.Handled = append(w.Handled, fmt.Sprintf("%T", i))
				return true
			})
		}
		w.M = m
		func() {
			defer func() {
				if r := recover(); r != nil {
					if sched.IsAbort(r) {
						panic(r)
					}
					w.ConnPanic = fmt.Sprint(r)
					w.ConnPanicFrame = vr.RepoFrame(3)
				}
			}()
			w.ConnErr = m.CreateConnection()
			w.ConnReturned = true
		}()
		if w.ConnErr != nil || w.ConnPanic != "" {
			if sc.AfterConnectFailure != nil {
				sc.AfterConnectFailure(w)
			}
			return
		}
		if sc.AfterConnect != nil {
			sc.AfterConnect(w)
		}
		for ci := range sc.Callers {
			ci := ci
			s.Go(fmt.Sprintf("caller%d", ci), func() {
				for oi := range sc.Callers[ci] {
					res := w.result(ci, oi)
					func() {
						defer func() {
							if r := recover(); r != nil {
								if sched.IsAbort(r) {
									panic(r)
								}
								res.Panic = fmt.Sprint(r)
								res.Frame = vr.RepoFrame(3)
							}
						}()
						if res.Call.After != nil {
							s.WaitUntil("call-precondition", func() bool { return res.Call.After(w) })
						}
						v, err := DoCall(m, res.Call)
						res.Val, res.Err, res.Returned = v, err, true
					}()
					if res.Panic != "" {
						return
					}
				}
			})
		}
		if sc.Ticks > 0 {
			s.Go("timer", func() {
				for i := 0; i < sc.Ticks; i++ {
					s.WaitUntil("tick", s.TickersArmed)
					w.TicksFired += s.FireTickers()
				}
			})
		}
	})
	w.Outcome = s.Run()
	w.Fatal = s.FatalEvent()
	w.Blocked = s.Blocked
	w.Points = s.Points
	w.Trace = s.Trace
	return w
}

func (w *World) result(ci, oi int) *CallResult {
	for _, r := range w.Results {
		if r.Caller == ci && r.Op == oi {
			return r
		}
	}
	return nil
}

// Stalled lists threads that ended blocked on something other than an idle wait:
// the reader parked in Conn.Read and daemon goroutines waiting for cancellation
// or a ticker are expected to be blocked at quiescence.
func (w *World) Stalled() []string {
	var out []string
	for _, b := range w.Blocked {
		switch b.Kind {
		case sched.OpWait:
			continue
		case sched.OpSelect:
			continue // pinger: ctx.Done / ticker
		case sched.OpRecv:
			if b.ElemType == "struct {}" || b.ElemType == "time.Time" {
				continue
			}
			if w.Sc.Ticks > 0 && strings.Contains(b.Thread, "startPinging") {
				continue // the pinger waits for the reply to its ping (see Scenario.Ticks)
			}
		case sched.OpSend:
			if len(w.Net.WriteFaulted) > 0 && strings.Contains(b.Thread, "sendPacket") {
				continue // see Scenario.WriteFaults
			}
		}
		out = append(out, b.Thread+":"+b.Desc)
	}
	sort.Strings(out)
	return out
}

// Warnings drains the warning channel.
func (w *World) Warnings() []string {
	var out []string
	for {
		select {
		case e := <-w.Warn:
			out = append(out, e.Error())
		default:
			return out
		}
	}
}

// Observation is a canonical, schedule-independent summary used to count
// distinct outcomes and to check replay determinism.
func (w *World) Observation() string {
	var b strings.Builder
	fmt.Fprintf(&b, "out=%s;", w.Outcome)
	if w.Fatal != nil {
		fmt.Fprintf(&b, "fatal=%s@%s;", vr.MsgClass(w.Fatal.Msg), w.Fatal.Frame)
	}
	for _, r := range w.Results {
		fmt.Fprintf(&b, "c%d.%d=%s;", r.Caller, r.Op, orOK(CheckResult(r)))
	}
	fmt.Fprintf(&b, "stalled=%v;frames=%d;", w.Stalled(), len(w.Srv.Frames))
	for _, f := range w.Srv.Frames {
		fmt.Fprintf(&b, "%x/%d,", f.Ctor, f.Tag)
	}
	fmt.Fprintf(&b, ";problems=%d", len(w.Srv.Problems))
	return b.String()
}

func orOK(s string) string {
	if s == "" {
		return "ok"
	}
	return s
}

// ReaderIdle: some receive loop is parked in Conn.Read of the newest connection.
func (w *World) ReaderIdle() bool {
	if len(w.Net.Conns) == 0 {
		return false
	}
	newest := w.Net.Conns[len(w.Net.Conns)-1]
	for _, t := range w.S.Threads() {
		if !t.Done() && t.Pending() == sched.OpWait && ConnOf(t.PendingObj()) == newest {
			return true
		}
	}
	return false
}
