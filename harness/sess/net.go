// Package sess is the session harness (DESIGN §4.S): an in-memory network whose
// connections feed reference servers, the dial seam, a recording session store,
// and helpers to run the unmodified public client API under the scheduler or
// free-running.
package sess

import (
	"context"
	"encoding/binary"
	"errors"
	"fmt"
	"io"
	"sync"

	"github.com/xelaj/errs"
	"github.com/xelaj/mtproto/internal/session"
	"github.com/xelaj/mtproto/internal/transport"
	"github.com/xelaj/mtproto/zverif/ref/rpcsrv"
	"github.com/xelaj/mtproto/zverif/sched"
)

type Net struct {
	S       *sched.S // nil: free-running
	Servers map[string]*rpcsrv.Server
	Dials   []string
	Conns   []*Conn
	// Auto is the free-running policy run after every client frame (default: deliver
	// everything queued, plain, in order).
	Auto func(c *Conn)
	// WriteFaults: how many more times the write of a frame may fail as a whole (nothing sent, an error returned,
	// the connection stays usable: a write deadline that passed). Whether a given frame fails is an environment
	// choice of the explorer. WriteFaulted names the threads whose write failed.
	WriteFaults  int
	WriteFaulted []string

	mu   sync.Mutex
	cond *sync.Cond
}

func NewNet(s *sched.S) *Net {
	n := &Net{S: s, Servers: map[string]*rpcsrv.Server{}}
	n.cond = sync.NewCond(&n.mu)
	if s != nil {
		s.Env = n
	}
	return n
}

// Install routes transport.NewTCP to this network. Uninstall restores dialling.
func (n *Net) Install()   { transport.VerifDial = n.dial }
func (n *Net) Uninstall() { transport.VerifDial = nil }

type Conn struct {
	net  *Net
	ID   int
	Addr string
	Srv  *rpcsrv.Server
	ctx  context.Context

	in          []byte // server -> client
	out         []byte // client -> server, not yet a complete frame
	announced   bool
	closedLocal bool
	closedPeer  bool
	FramesIn    int
	LostWrites  int // bytes written after the peer closed
	readers     int // goroutines currently inside Read
	Waiting     int // free-running mode: readers currently blocked waiting for data
	Consumed    int // bytes handed to the client
	BadStream   string
}

func (n *Net) dial(cfg transport.TCPConnConfig) (transport.Conn, error) {
	n.lock()
	defer n.unlock()
	n.Dials = append(n.Dials, cfg.Host)
	srv, ok := n.Servers[cfg.Host]
	if !ok {
		return nil, fmt.Errorf("dialing tcp: connect %s: connection refused", cfg.Host)
	}
	c := &Conn{net: n, ID: len(n.Conns), Addr: cfg.Host, Srv: srv, ctx: cfg.Ctx}
	if c.ctx == nil {
		c.ctx = context.Background()
	}
	n.Conns = append(n.Conns, c)
	srv.Closed = false
	if n.S == nil {
		go func() { // wake a blocked reader on cancel
			<-c.ctx.Done()
			n.mu.Lock()
			n.cond.Broadcast()
			n.mu.Unlock()
		}()
	}
	return c, nil
}

func (n *Net) lock() {
	if n.S == nil {
		n.mu.Lock()
	}
}
func (n *Net) unlock() {
	if n.S == nil {
		n.mu.Unlock()
	}
}

var errClosed = errors.New("use of closed network connection")

func (c *Conn) Read(b []byte) (int, error) {
	n := c.net
	if n.S != nil && c.readers > 0 {
		// a read from a socket is a point where another goroutine may run; it matters only when several
		// goroutines read the same connection (a leaked reading routine): the bytes of one frame are then
		// split between them
		n.S.Yield("conn-read")
	}
	n.lock()
	defer n.unlock()
	c.readers++
	defer func() { c.readers-- }()
	for {
		if len(b) == 0 {
			return 0, nil
		}
		if len(c.in) >= len(b) {
			copy(b, c.in)
			c.in = c.in[len(b):]
			c.Consumed += len(b)
			return len(b), nil
		}
		if c.ctx.Err() != nil || c.closedLocal {
			return 0, context.Canceled
		}
		if c.closedPeer {
			if len(c.in) == 0 {
				return 0, io.EOF
			}
			return 0, fmt.Errorf("unexpected error: %w", io.ErrUnexpectedEOF)
		}
		if n.S != nil {
			c.Waiting++
			n.S.Wait(&readWait{c, len(b)})
			c.Waiting--
		} else {
			c.Waiting++
			n.cond.Wait()
			c.Waiting--
		}
	}
}

// Take (free-running mode) blocks until the server has put bytes on the connection and returns all of them; ok is
// false once the connection is over.
func (c *Conn) Take() (b []byte, ok bool) {
	n := c.net
	n.mu.Lock()
	defer n.mu.Unlock()
	for len(c.in) == 0 {
		if c.ctx.Err() != nil || c.closedLocal || c.closedPeer {
			return nil, false
		}
		n.cond.Wait()
	}
	b, c.in = c.in, nil
	c.Consumed += len(b)
	return b, true
}

// writeChoice: a thread parked at the start of a frame write; the environment lets it through or fails it.
type writeChoice struct {
	c    *Conn
	fail bool
}

var errInjectedWrite = errors.New("write: i/o timeout (injected write failure)")

func (c *Conn) Write(b []byte) (int, error) {
	n := c.net
	if n.S != nil {
		if n.WriteFaults > 0 && c.announced && len(c.out) == 0 && c.live() {
			wc := &writeChoice{c: c}
			n.S.Wait(wc)
			if wc.fail {
				n.WriteFaults--
				n.WriteFaulted = append(n.WriteFaulted, n.S.CurrentName())
				return 0, errInjectedWrite
			}
		} else {
			n.S.Yield("conn-write")
		}
	}
	n.lock()
	defer n.unlock()
	if c.closedLocal {
		return 0, errClosed
	}
	if c.closedPeer {
		c.LostWrites += len(b)
		return len(b), nil // goes nowhere, like bytes written to a half-closed socket
	}
	c.out = append(c.out, b...)
	if !c.announced {
		if len(c.out) < 4 {
			return len(b), nil
		}
		if binary.LittleEndian.Uint32(c.out) != 0xeeeeeeee {
			c.BadStream = fmt.Sprintf("stream does not start with the intermediate announcement: % x", c.out[:4])
			c.out = nil
			return len(b), nil
		}
		c.announced = true
		c.out = c.out[4:]
	}
	for len(c.out) >= 4 {
		l := int(binary.LittleEndian.Uint32(c.out))
		if l < 0 || l > 1<<24 {
			c.BadStream = fmt.Sprintf("frame length %d", l)
			c.out = nil
			break
		}
		if len(c.out) < 4+l {
			break
		}
		frame := append([]byte{}, c.out[4:4+l]...)
		c.out = c.out[4+l:]
		c.FramesIn++
		c.Srv.OnFrame(frame, c.ID)
		if n.S == nil {
			if n.Auto != nil {
				n.Auto(c)
			} else {
				c.DeliverAllDefault()
			}
			n.cond.Broadcast()
		}
	}
	return len(b), nil
}

func (c *Conn) Close() error {
	n := c.net
	n.lock()
	defer n.unlock()
	c.closedLocal = true
	if n.S == nil {
		n.cond.Broadcast()
	}
	return nil
}

// push appends one server frame to the client's inbound stream.
func (c *Conn) push(frame []byte) {
	c.in = binary.LittleEndian.AppendUint32(c.in, uint32(len(frame)))
	c.in = append(c.in, frame...)
}

// PushRaw appends one raw server frame (any bytes) to the client's inbound stream, outside the reference
// server's menu (used for follow-up traffic after an aborted exchange).
func (c *Conn) PushRaw(frame []byte) {
	c.net.lock()
	c.push(frame)
	c.net.unlock()
	if c.net.S == nil {
		c.net.cond.Broadcast()
	}
}

// Drained: everything pushed was consumed and the reader waits for more (or the connection is gone).
func (c *Conn) Drained() bool {
	return !c.live() || (len(c.in) == 0 && c.Waiting > 0)
}

// Do performs one server action on this connection.
func (c *Conn) Do(a rpcsrv.Action) {
	frames, closeConn := c.Srv.Emit(a)
	for _, f := range frames {
		c.push(f)
	}
	if closeConn {
		c.closedPeer = true
		c.Srv.Closed = true
	}
}

// DeliverAllDefault emits everything queued as plain messages, oldest first.
func (c *Conn) DeliverAllDefault() {
	for len(c.Srv.Queue) > 0 {
		m := c.Srv.Menu()
		if len(m) == 0 {
			return
		}
		c.Do(m[0])
	}
}

func (c *Conn) live() bool { return !c.closedLocal && !c.closedPeer && c.ctx.Err() == nil }

// ---- sched.Env -----------------------------------------------------------------

// readWait: a reader parked in Conn.Read until need bytes are there (or the connection ends).
type readWait struct {
	c    *Conn
	need int
}

// ConnOf returns the connection a parked reader waits on (nil if obj is not a reader's wait object).
func ConnOf(obj interface{}) *Conn {
	if rw, ok := obj.(*readWait); ok {
		return rw.c
	}
	return nil
}

func (n *Net) Alternatives(obj interface{}) int {
	if _, ok := obj.(*writeChoice); ok {
		if n.WriteFaults > 0 {
			return 2 // 0: the frame goes out, 1: the write fails
		}
		return 1
	}
	rw := obj.(*readWait)
	c := rw.c
	if c.ctx.Err() != nil || c.closedLocal || c.closedPeer {
		return 1 // wake up to report the condition
	}
	if len(c.in) >= rw.need {
		return 1 // what this reader asked for has arrived: just resume
	}
	if len(c.in) > 0 {
		return 0 // some bytes are there but not enough for this reader (and the server has nothing to add until they are consumed)
	}
	// only the newest connection to a server is served
	for i := len(n.Conns) - 1; i >= 0; i-- {
		if n.Conns[i].Srv == c.Srv {
			if n.Conns[i] != c {
				return 0
			}
			break
		}
	}
	return len(c.Srv.Menu())
}

func (n *Net) Apply(obj interface{}, alt int) {
	if wc, ok := obj.(*writeChoice); ok {
		wc.fail = alt == 1
		return
	}
	c := obj.(*readWait).c
	if c.ctx.Err() != nil || c.closedLocal || c.closedPeer || len(c.in) > 0 {
		return
	}
	m := c.Srv.Menu()
	if alt < len(m) {
		c.Do(m[alt])
	}
}

// ---- session store ---------------------------------------------------------------

type MemStore struct {
	mu      sync.Mutex
	Cur     *session.Session
	Stores  []session.Session
	LoadErr error
	// FailAt: the FailAt-th call of Store (1-based) fails and stores nothing (a full disk for a moment);
	// Attempts counts all calls.
	FailAt   int
	Attempts int
}

func (m *MemStore) Load() (*session.Session, error) {
	m.mu.Lock()
	defer m.mu.Unlock()
	if m.LoadErr != nil {
		return nil, m.LoadErr
	}
	if m.Cur == nil {
		return nil, errs.NotFound("session", "memory")
	}
	c := *m.Cur
	return &c, nil
}

func (m *MemStore) Store(s *session.Session) error {
	m.mu.Lock()
	defer m.mu.Unlock()
	m.Attempts++
	if m.Attempts == m.FailAt {
		return errors.New("session store: no space left on device (injected)")
	}
	c := *s
	c.Key = append([]byte{}, s.Key...)
	c.Hash = append([]byte{}, s.Hash...)
	m.Cur = &c
	m.Stores = append(m.Stores, c)
	return nil
}

func (c *Conn) Announced() bool { return c.announced }

// Idle (free-running mode): everything pushed has been consumed and a reader is blocked waiting for more.
func (c *Conn) Idle() bool {
	c.net.mu.Lock()
	defer c.net.mu.Unlock()
	return len(c.in) == 0 && c.Waiting > 0
}

// Wake (free-running mode, lock held): blocked readers look at their connection again.
func (n *Net) Wake() { n.cond.Broadcast() }

func (n *Net) Lock()   { n.mu.Lock() }
func (n *Net) Unlock() { n.mu.Unlock() }
