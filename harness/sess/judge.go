package sess

import (
	"fmt"
	"sort"
	"strings"

	"github.com/xelaj/mtproto/zverif/ref/rpcsrv"
	"github.com/xelaj/mtproto/zverif/sched"
	"github.com/xelaj/mtproto/zverif/vr"
)

func Replay(sc *Scenario, choices []int) map[string]any {
	return map[string]any{"scenario": sc.Name, "choices": choices}
}

// JudgeAlive reports connect errors, step limits and fatal panics (process
// death). It returns false when the execution cannot be judged further.
func JudgeAlive(run *vr.Run, sc *Scenario, w *World, choices []int) bool {
	rep := Replay(sc, choices)
	if sc.Ticks > 0 {
		// vacuity guard of the keep-alive scenarios: in how many executions the timer fired and the ping reached
		// the server, and in how many of those it arrived between two requests of the callers
		for i, f := range w.Srv.Frames {
			if f.Ctor == 0x7abe77ec {
				run.Count("executions_with_the_keepalive_ping_on_the_wire", 1)
				after := false
				for _, g := range w.Srv.Frames[i+1:] {
					if g.Ctor == rpcsrv.ReqID {
						after = true
					}
				}
				if after {
					run.Count("executions_with_the_keepalive_ping_before_a_request_of_a_caller", 1)
				}
				break
			}
		}
	}
	if len(w.Net.WriteFaulted) > 0 {
		run.Count("executions_with_a_failed_write", 1)
	}
	if w.ConnErr != nil {
		run.Violation("connect-error|"+vr.MsgClass(w.ConnErr.Error()), sc.Name+": CreateConnection on a stored session failed: "+w.ConnErr.Error(), rep)
		return false
	}
	if w.Outcome == sched.StepLimit {
		run.Violation(sc.Name+"|step-limit", sc.Name+": execution did not finish within the step limit (livelock?)", rep)
		return false
	}
	if w.Fatal != nil {
		run.Violation(fmt.Sprintf("fatal|%s|%s|%s|%s", threadClass(w.Fatal.Thread), vr.MsgClass(w.Fatal.Msg), w.Fatal.Frame, ResultKinds(w)),
			fmt.Sprintf("%s: goroutine %s panics (process death): %s in %s; server emitted %v", sc.Name, w.Fatal.Thread, w.Fatal.Msg, w.Fatal.Frame, w.Srv.Emitted), rep)
		return false
	}
	for _, r := range w.Results {
		if r.Panic != "" {
			// a panic that reaches the goroutine which made the call ends the process unless the application
			// recovers it: no statement about the session holds after that
			run.Violation(fmt.Sprintf("caller-panic|%s|%s", vr.MsgClass(r.Panic), r.Frame),
				fmt.Sprintf("%s: the call of caller %d (tag %d) panics: %s in %s; server emitted %v", sc.Name, r.Caller, r.Call.Tag, r.Panic, r.Frame, w.Srv.Emitted), rep)
			return false
		}
	}
	return true
}

// JudgeCalls: every caller returned exactly its own result; nothing stalled;
// every request executed exactly once.
func JudgeCalls(run *vr.Run, sc *Scenario, w *World, choices []int) {
	rep := Replay(sc, choices)
	for _, r := range w.Results {
		if v := CheckResult(r); v != "" {
			run.Violation(fmt.Sprintf("%s|kind=%d|%s", sc.Name, r.Call.Kind, v),
				fmt.Sprintf("%s: caller %d op %d (tag %d kind %d): %s (val=%v err=%v panic=%s); server emitted %v; blocked=%v", sc.Name, r.Caller, r.Op, r.Call.Tag, r.Call.Kind, v, r.Val, r.Err, r.Panic, w.Srv.Emitted, w.Stalled()), rep)
		}
	}
	if st := w.Stalled(); len(st) > 0 {
		run.Violation(sc.Name+"|stall|"+StallClass(st), fmt.Sprintf("%s: threads blocked forever at quiescence: %v; server emitted %v", sc.Name, st, w.Srv.Emitted), rep)
	}
	for tag, n := range w.Srv.Exec {
		if n != 1 {
			run.Violation(fmt.Sprintf("%s|executed-%d-times", sc.Name, n), fmt.Sprintf("%s: request tag %d executed %d times; server emitted %v", sc.Name, tag, n, w.Srv.Emitted), rep)
		}
	}
}

func threadClass(name string) string {
	if strings.HasPrefix(name, "caller") {
		return "caller"
	}
	return name
}

// ResultKinds names the result kinds involved in the scenario, so that a fatal
// panic tied to vector results has a different site key from other ones.
func ResultKinds(w *World) string {
	seen := map[rpcsrv.Kind]bool{}
	for _, r := range w.Results {
		seen[r.Call.Kind] = true
	}
	var s []string
	for k := rpcsrv.KObj; k <= rpcsrv.KErr; k++ {
		if seen[k] {
			s = append(s, fmt.Sprint(int(k)))
		}
	}
	return "kinds=" + strings.Join(s, ",")
}

func StallClass(st []string) string {
	var k []string
	for _, s := range st {
		name := strings.SplitN(s, ":", 2)
		th := strings.TrimRight(name[0], "0123456789")
		k = append(k, th+":"+strings.SplitN(name[1], "(", 2)[0])
	}
	sort.Strings(k)
	return strings.Join(k, ",")
}

func AnyReturned(w *World) bool {
	for _, r := range w.Results {
		if r.Returned {
			return true
		}
	}
	return false
}
