// Package freepass is the parent side of the separate free-running pass (see DESIGN.md 2.8): it runs
// $VERIF_BUILD/racepass, built with -race by the check driver, and turns its findings into violations.
package freepass

import (
	"bufio"
	"bytes"
	"context"
	"encoding/json"
	"fmt"
	"os"
	"os/exec"
	"path/filepath"
	"regexp"
	"sort"
	"strings"
	"time"

	"github.com/xelaj/mtproto/zverif/vr"
)

// Run executes the free-running pass for one property: the scenario set of that property runs with real
// goroutines on all cores (no scheduler) in a binary built with -race.
//
//   - A wrong result (a value that differs from what the same operation gives sequentially / from what the
//     reference promises), a panic, a stream the reference server rejects, or the death of the process in a
//     free run is a demonstrated failure of the property: VIOLATION.
//   - A report of the Go race detector whose innermost repository frames lie in the library is a VIOLATION
//     as well: under the Go memory model an execution with a data race has no defined behaviour beyond
//     word-sized reads ("implementations may report the race and terminate the program"; maps and multi-word
//     values may be corrupted), so none of the statements about concurrent use can be relied on. The unchanged
//     tree is free of such reports (its three racy pairs were repaired, see known_findings.jsonl).
//   - Runs that hit the internal deadline are counted, never judged (no wall-clock oracle).
//
// The pass samples schedules; it complements the exhaustive exploration, whose cooperative hand-offs hide
// unsynchronised accesses from any detector, and whose choice points are the synchronisation operations only.
func Run(run *vr.Run, set string, rounds int) {
	bin := filepath.Join(os.Getenv("VERIF_BUILD"), "racepass")
	if _, err := os.Stat(bin); err != nil {
		run.Set("free_running_pass", "not run: "+bin+" missing")
		return
	}
	logBase := filepath.Join(os.Getenv("VERIF_BUILD"), "racelog")
	old, _ := filepath.Glob(logBase + ".*")
	for _, f := range old {
		os.Remove(f)
	}
	ctx, cancel := context.WithTimeout(context.Background(), 10*time.Minute)
	defer cancel()
	cmd := exec.CommandContext(ctx, bin, "--set", set, "--rounds", fmt.Sprint(rounds))
	cmd.Env = append(os.Environ(), "GORACE=halt_on_error=0 exitcode=0 log_path="+logBase)
	var out, errb bytes.Buffer
	cmd.Stdout, cmd.Stderr = &out, &errb
	err := cmd.Run()
	info := map[string]any{"set": set, "rounds_per_scenario": rounds, "kind": "sampling of schedules with real parallelism (supplementary; the deciding exploration is the exhaustive one above)"}
	var scen []map[string]any
	sc := bufio.NewScanner(&out)
	sc.Buffer(make([]byte, 1<<20), 1<<20)
	for sc.Scan() {
		var rep struct {
			Scenario string   `json:"scenario"`
			Rounds   int      `json:"rounds"`
			Timeouts int      `json:"timeouts"`
			Wrong    []string `json:"wrong"`
			Problems []string `json:"problems"`
		}
		if json.Unmarshal(sc.Bytes(), &rep) != nil {
			continue
		}
		if rep.Wrong == nil {
			rep.Wrong = []string{}
		}
		scen = append(scen, map[string]any{"scenario": rep.Scenario, "rounds": rep.Rounds, "not_judged_deadline": rep.Timeouts, "wrong": rep.Wrong})
		for _, w := range rep.Wrong {
			run.Violation("free-run|"+vr.MsgClass(w), fmt.Sprintf("free-running pass, scenario %q: %s", rep.Scenario, w), map[string]any{"free_run": set, "scenario": rep.Scenario})
		}
		for _, p := range rep.Problems {
			run.Violation("free-run|stream|"+vr.MsgClass(p), fmt.Sprintf("free-running pass, scenario %q: the reference server rejects the client's stream: %s", rep.Scenario, p), map[string]any{"free_run": set, "scenario": rep.Scenario})
		}
	}
	info["scenarios"] = scen
	if ctx.Err() != nil {
		info["truncated"] = "deadline of the pass reached"
	} else if err != nil {
		// the process died: a runtime fatal error or an unrecovered panic in a client goroutine
		msg := errb.String()
		first := msg
		if i := strings.Index(msg, "fatal error:"); i >= 0 {
			first = msg[i:]
		} else if i := strings.Index(msg, "panic:"); i >= 0 {
			first = msg[i:]
		}
		if i := strings.IndexByte(first, '\n'); i >= 0 {
			first = first[:i]
		}
		run.Violation("free-run|process-died|"+vr.MsgClass(first)+"|"+firstRepoFrame(msg), fmt.Sprintf("free-running pass: the process died: %s (%v)", first, err), map[string]any{"free_run": set, "stderr_head": head(msg, 1500)})
	}
	races, onMap, first := parseRaces(logBase)
	sites := []string{}
	for k := range races {
		sites = append(sites, k)
	}
	sort.Strings(sites)
	for _, k := range sites {
		what := "data race"
		if onMap[k] {
			what = "unsynchronised concurrent access to a map (the runtime kills the process when the accesses overlap)"
		}
		run.Violation("free-run|data-race|"+k, fmt.Sprintf("free-running pass (%s): %s between %s, %d reports of the race detector", set, what, k, races[k]),
			map[string]any{"free_run": set, "site": k, "first_report": head(first[k], 3000)})
	}
	info["data_race_sites_reported_by_the_go_race_detector"] = sites
	run.Set("free_running_pass", info)
}

// Rounds: free runs per scenario for a tier.
func Rounds(run *vr.Run) int {
	if run.Thorough() {
		return 1000
	}
	return 60
}

// MaybeReplay: when --replay names a finding of the free-running pass, the pass is run again and the check
// ends (the pass samples schedules; the detector's reports depend little on timing, wrong results may).
func MaybeReplay(run *vr.Run) {
	if run.ReplayPath == "" {
		return
	}
	b, err := os.ReadFile(run.ReplayPath)
	if err != nil {
		return
	}
	var w struct {
		Case struct {
			FreeRun string `json:"free_run"`
		} `json:"case"`
	}
	if json.Unmarshal(b, &w) != nil || w.Case.FreeRun == "" {
		return
	}
	Run(run, w.Case.FreeRun, Rounds(run))
	run.Finish()
}

func head(s string, n int) string {
	if len(s) > n {
		return s[:n]
	}
	return s
}

var frameRe = regexp.MustCompile(`^\s+(github\.com/xelaj/mtproto[^\s(]*(?:\(\*?[A-Za-z0-9_]+\))?[^\s(]*)\(`)

func firstRepoFrame(stack string) string {
	for _, l := range strings.Split(stack, "\n") {
		if m := frameRe.FindStringSubmatch(l); m != nil && !strings.Contains(m[1], "/zverif/") {
			f := strings.TrimPrefix(m[1], "github.com/xelaj/mtproto/")
			return strings.TrimPrefix(f, "github.com/xelaj/")
		}
	}
	return "?"
}

// parseRaces reads the detector's log files and returns site -> count, a site being the pair of innermost
// repository functions of the two conflicting accesses.
func parseRaces(logBase string) (map[string]int, map[string]bool, map[string]string) {
	out := map[string]int{}
	onMap := map[string]bool{}
	first := map[string]string{}
	files, _ := filepath.Glob(logBase + ".*")
	for _, f := range files {
		b, err := os.ReadFile(f)
		if err != nil {
			continue
		}
		for _, blk := range strings.Split(string(b), "==================") {
			if !strings.Contains(blk, "DATA RACE") {
				continue
			}
			// the two access stacks are the first two paragraphs
			paras := strings.Split(strings.TrimSpace(blk), "\n\n")
			var fr []string
			isMap := false
			inLibrary := false
			for _, p := range paras {
				if strings.Contains(p, "Goroutine ") && strings.Contains(p, "created at") {
					break
				}
				fr = append(fr, firstRepoFrame(p))
				// the access itself: the topmost frame that is not the runtime's
				for _, l := range strings.Split(p, "\n")[1:] {
					t := strings.TrimSpace(l)
					if strings.HasPrefix(t, "/") || t == "" {
						continue // file:line
					}
					if strings.HasPrefix(t, "runtime.") {
						if strings.HasPrefix(t, "runtime.map") {
							isMap = true // mapaccess / mapassign / mapdelete / mapiter
						}
						continue
					}
					if strings.HasPrefix(t, "github.com/xelaj/") && !strings.Contains(t, "/zverif/") {
						inLibrary = true
					}
					break
				}
			}
			if !inLibrary {
				continue // both accesses are made by harness code (or a third-party package called by it)
			}
			if len(fr) < 2 || (fr[0] == "?" && fr[1] == "?") {
				continue // both accesses in harness or library code
			}
			sort.Strings(fr[:2])
			k := fr[0] + " <-> " + fr[1]
			out[k]++
			if first[k] == "" {
				first[k] = strings.TrimSpace(blk)
			}
			if isMap {
				onMap[k] = true
			}
		}
	}
	return out, onMap, first
}
