// Package vcrand replaces "crypto/rand" in rewritten repository files.
package vcrand

import (
	crand "crypto/rand"
	"errors"
	"io"
	"math/big"
	"sync/atomic"

	"github.com/xelaj/mtproto/zverif/sched"
	"github.com/xelaj/mtproto/zverif/vrand"
)

// CryptoReads counts bytes served from the OS source while not owned.
var CryptoBytes int64

type reader struct{}

// FailAt, when > 0, makes the FailAt-th read from now on fail (fault injection: the OS source is unavailable).
var FailAt int64

// ScriptAt / Script: when ScriptAt > 0, the ScriptAt-th read from now on is answered with Script repeated to
// the requested length instead of OS bytes (an OS source that hands out a degenerate value: all zero, all ff).
var ScriptAt int64
var Script byte

// YieldOnRead: under the scheduler a read of the OS source is a scheduling point (the read may block: getrandom
// waits for the entropy pool), so that another thread can run while this one is inside the read.
var YieldOnRead bool

func (reader) Read(p []byte) (int, error) {
	if YieldOnRead && sched.Active() != nil {
		sched.Yield("os-random-read")
	}
	if atomic.LoadInt64(&ScriptAt) > 0 {
		if atomic.AddInt64(&ScriptAt, -1) == 0 {
			for i := range p {
				p[i] = Script
			}
			return len(p), nil
		}
	}
	// FailAt is only set by single-threaded drivers; the counters are atomic so that free-running drivers
	// (several clients at once) do not race inside the shim
	if atomic.LoadInt64(&FailAt) > 0 {
		if atomic.AddInt64(&FailAt, -1) == 0 {
			return 0, errors.New("crypto/rand: injected read failure")
		}
	}
	if vrand.Owned() {
		return vrand.Read(p)
	}
	atomic.AddInt64(&CryptoBytes, int64(len(p)))
	return crand.Read(p)
}

var Reader io.Reader = reader{}

func Read(p []byte) (int, error) { return io.ReadFull(Reader, p) }

func Int(r io.Reader, max *big.Int) (*big.Int, error) { return crand.Int(r, max) }

func Prime(r io.Reader, bits int) (*big.Int, error) { return crand.Prime(r, bits) }
