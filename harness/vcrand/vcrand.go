// Package vcrand replaces "crypto/rand" in rewritten repository files.
package vcrand

import (
	crand "crypto/rand"
	"errors"
	"io"
	"math/big"

	"github.com/xelaj/mtproto/zverif/vrand"
)

// CryptoReads counts bytes served from the OS source while not owned.
var CryptoBytes int64

type reader struct{}

// FailAt, when > 0, makes the FailAt-th read from now on fail (fault injection: the OS source is unavailable).
var FailAt int64

func (reader) Read(p []byte) (int, error) {
	if FailAt > 0 {
		FailAt--
		if FailAt == 0 {
			return 0, errors.New("crypto/rand: injected read failure")
		}
	}
	if vrand.Owned() {
		return vrand.Read(p)
	}
	CryptoBytes += int64(len(p))
	return crand.Read(p)
}

var Reader io.Reader = reader{}

func Read(p []byte) (int, error) { return io.ReadFull(Reader, p) }

func Int(r io.Reader, max *big.Int) (*big.Int, error) { return crand.Int(r, max) }

func Prime(r io.Reader, bits int) (*big.Int, error) { return crand.Prime(r, bits) }
