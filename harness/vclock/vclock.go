// Package vclock replaces time.Now / time.Sleep in rewritten repository files.
package vclock

import (
	"sync/atomic"
	"time"

	"github.com/xelaj/mtproto/zverif/sched"
)

var pinned atomic.Int64 // unix nanos; 0 = not pinned
var Reads atomic.Int64

// Pin makes Now return t (and only t) outside scheduled runs; Pin(0) unpins.
func Pin(unixNano int64) { pinned.Store(unixNano) }

func Now() time.Time {
	Reads.Add(1)
	if s := sched.Active(); s != nil {
		return s.Now()
	}
	if p := pinned.Load(); p != 0 {
		return time.Unix(0, p)
	}
	return time.Now()
}

func Since(t time.Time) time.Duration { return Now().Sub(t) }

func Sleep(d time.Duration) {
	if s := sched.Active(); s != nil {
		s.SetClock(s.Clock() + int64(d))
		sched.Yield("sleep")
		return
	}
	if pinned.Load() != 0 {
		return
	}
	time.Sleep(d)
}
