// Package vclock replaces time.Now / time.Sleep in rewritten repository files.
package vclock

import (
	"sync/atomic"
	"time"

	"github.com/xelaj/mtproto/zverif/sched"
)

var pinned atomic.Int64 // unix nanos; 0 = not pinned
var Reads atomic.Int64

// Pin makes Now return t (and only t) outside scheduled runs; Pin(0) unpins.
func Pin(unixNano int64) { pinned.Store(unixNano) }

func Now() time.Time {
	Reads.Add(1)
	if s := sched.Active(); s != nil {
		return s.Now()
	}
	if p := pinned.Load(); p != 0 {
		return time.Unix(0, p)
	}
	return time.Now()
}

func Since(t time.Time) time.Duration { return Now().Sub(t) }

func Sleep(d time.Duration) {
	if s := sched.Active(); s != nil {
		s.SetClock(s.Clock() + int64(d))
		sched.Yield("sleep")
		return
	}
	if pinned.Load() != 0 {
		return
	}
	time.Sleep(d)
}

// Ticker stands for time.Ticker in rewritten repository files: a real ticker outside scheduled runs, a ticker
// that fires when the harness decides inside them.
type Ticker struct {
	C    <-chan time.Time
	real *time.Ticker
	s    *sched.S
	v    *sched.VTicker
}

func NewTicker(d time.Duration) *Ticker {
	if s := sched.Active(); s != nil {
		v := s.NewTicker(d)
		return &Ticker{C: v.C, s: s, v: v}
	}
	r := time.NewTicker(d)
	return &Ticker{C: r.C, real: r}
}

func (t *Ticker) Stop() {
	if t.real != nil {
		t.real.Stop()
		return
	}
	t.s.StopTicker(t.v)
}
