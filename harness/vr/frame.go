package vr

import (
	"regexp"
	"runtime"
	"strings"
)

// RepoFrame returns the innermost function of the repository (not of the
// harness, the runtime or third-party code) on the current stack. Called from
// a deferred recover it names the function that panicked.
func RepoFrame(skip int) string {
	pcs := make([]uintptr, 64)
	n := runtime.Callers(skip, pcs)
	frames := runtime.CallersFrames(pcs[:n])
	for {
		f, more := frames.Next()
		fn := f.Function
		if strings.HasPrefix(fn, "github.com/xelaj/mtproto") && !strings.Contains(fn, "/zverif/") &&
			!strings.HasSuffix(f.File, "_verif.go") {
			fn = strings.TrimPrefix(fn, "github.com/xelaj/mtproto/")
			fn = strings.TrimPrefix(fn, "github.com/xelaj/")
			// drop closure suffixes so the key survives small refactors
			fn = closureRe.ReplaceAllString(fn, "")
			return fn
		}
		if !more {
			return "?"
		}
	}
}

var closureRe = regexp.MustCompile(`(\.func\d+)+(\.\d+)*$`)

var numRe = regexp.MustCompile(`-?\d+`)
var hexRe = regexp.MustCompile(`0x[0-9a-fA-F]+|\b[0-9a-fA-F]{8,}\b`)

// MsgClass normalises a panic/error message into a class: numbers and
// addresses are replaced so the key does not depend on raw values.
func MsgClass(s string) string {
	s = hexRe.ReplaceAllString(s, "H")
	s = numRe.ReplaceAllString(s, "N")
	if len(s) > 110 {
		s = s[:40] + "..." + s[len(s)-65:]
	}
	return s
}
