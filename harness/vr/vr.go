// Package vr is the shared reporting layer of every check: counters for the
// evidence file, violation reporting with replay artefacts, and the known
// findings list (read-only at run time).
package vr

import (
	"crypto/sha1"
	"encoding/hex"
	"encoding/json"
	"flag"
	"fmt"
	"os"
	"path/filepath"
	"runtime"
	"sort"
	"strconv"
	"strings"
	"sync"
	"time"
)

// Root is /verif (the directory that holds MANIFEST.json).
func Root() string {
	if r := os.Getenv("VERIF_ROOT"); r != "" {
		return r
	}
	return "/verif"
}

type Finding struct {
	Property string `json:"property"`
	SiteKey  string `json:"site_key,omitempty"`
	What     string `json:"what"`
	Status   string `json:"status"` // known | fixed
	Commit   string `json:"commit,omitempty"`
}

type violation struct {
	SiteKey string
	What    string
	Replay  string
	Count   int
}

type Run struct {
	ID    string
	Tier  string
	Seed  int64
	Level string

	mu         sync.Mutex
	start      time.Time
	evals      int64
	nontrivial map[[12]byte]struct{}
	rule       string
	samples    []any
	extra      map[string]any
	assume     []string
	exhaustive bool
	known      map[string]Finding
	knownHit   map[string]int
	viol       map[string]*violation
	violOrder  []string
	outcomes   map[string]int
	deadline   time.Time
	ReplayPath string
	// replaySite: checks without a case-level replay re-run their (deterministic) enumeration under --replay
	// and report only the recorded site
	replaySite string

	curClass, curCase string
	curRep            any
	curStart          time.Time
	guardOn           bool

	job         string
	autoSamples []any
	counters    map[string]int64
	wviol       map[string]*wViol
	wviolOrder  []string
}

// New parses the common flags (--tier, --replay) and prepares a run.
func New(id, level string) *Run {
	tier := flag.String("tier", envOr("VERIF_TIER", "quick"), "quick|thorough")
	replay := flag.String("replay", "", "replay file")
	budget := flag.Duration("budget", 0, "wall-clock budget (0 = tier default)")
	job := flag.String("job", "", "worker mode: explore one job (JSON) and print partial results")
	flag.Parse()
	seed, _ := strconv.ParseInt(envOr("VERIF_SEED", "0"), 10, 64)
	r := &Run{ID: id, Tier: *tier, Seed: seed, Level: level, start: time.Now(),
		nontrivial: map[[12]byte]struct{}{}, extra: map[string]any{}, known: map[string]Finding{},
		knownHit: map[string]int{}, viol: map[string]*violation{}, outcomes: map[string]int{},
		exhaustive: true, ReplayPath: *replay, job: *job}
	if r.Tier != "quick" && r.Tier != "thorough" {
		r.Tier = "quick"
	}
	if *budget > 0 {
		r.deadline = r.start.Add(*budget)
	}
	r.loadKnown()
	if r.ReplayPath != "" {
		if b, err := os.ReadFile(r.ReplayPath); err == nil {
			var w struct {
				SiteKey string `json:"site_key"`
				Tier    string `json:"tier"`
			}
			if json.Unmarshal(b, &w) == nil {
				r.replaySite = w.SiteKey
				if w.Tier == "quick" || w.Tier == "thorough" {
					r.Tier = w.Tier // the enumeration that found it
				}
			}
		}
	}
	return r
}

func envOr(k, d string) string {
	if v := os.Getenv(k); v != "" {
		return v
	}
	return d
}

func (r *Run) Thorough() bool { return r.Tier == "thorough" }

// SetBudget installs a default wall-clock budget unless --budget was given.
func (r *Run) SetBudget(d time.Duration) {
	if r.deadline.IsZero() {
		r.deadline = r.start.Add(d)
	}
}

// OutOfBudget reports whether the budget is spent; the caller must then stop
// enumerating and call Truncated with what was completed.
func (r *Run) OutOfBudget() bool {
	return !r.deadline.IsZero() && time.Now().After(r.deadline)
}

func (r *Run) Truncated(why string) {
	r.mu.Lock()
	r.exhaustive = false
	r.extra["truncated"] = why
	r.mu.Unlock()
}

func (r *Run) loadKnown() {
	f, err := os.ReadFile(filepath.Join(Root(), "known_findings.jsonl"))
	if err != nil {
		return
	}
	for _, line := range strings.Split(string(f), "\n") {
		line = strings.TrimSpace(line)
		if line == "" || strings.HasPrefix(line, "#") {
			continue
		}
		var k Finding
		if json.Unmarshal([]byte(line), &k) != nil {
			continue
		}
		if k.Property == r.ID && k.Status == "known" && k.SiteKey != "" {
			r.known[k.SiteKey] = k
		}
	}
}

func (r *Run) Rule(s string)       { r.rule = s }
func (r *Run) Assume(s ...string)  { r.assume = append(r.assume, s...) }
func (r *Run) Set(k string, v any) { r.mu.Lock(); r.extra[k] = v; r.mu.Unlock() }
func (r *Run) Add(k string, n int64) {
	r.mu.Lock()
	cur, _ := r.extra[k].(int64)
	r.extra[k] = cur + n
	r.mu.Unlock()
}

// Eval counts one evaluated case. key identifies the case; nontrivial says
// whether it counts by the check's rule.
func (r *Run) Eval(key string, nontrivial bool) {
	r.mu.Lock()
	r.evals++
	// actual cases of this run, written out at exponentially spaced positions of the enumeration
	if nontrivial && len(r.autoSamples) < 6 {
		switch r.evals {
		case 1, 7, 50, 400, 3000, 25000, 200000:
			k := key
			if len(k) > 300 {
				k = k[:300] + "..."
			}
			r.autoSamples = append(r.autoSamples, map[string]any{"case": k, "position_in_enumeration": r.evals})
		}
	}
	if nontrivial {
		h := sha1.Sum([]byte(key))
		var k [12]byte
		copy(k[:], h[:12])
		r.nontrivial[k] = struct{}{}
	}
	r.mu.Unlock()
}

func (r *Run) Evals() int64 { r.mu.Lock(); defer r.mu.Unlock(); return r.evals }

// Recover (deferred in a check's main) turns a panic of the check itself into a violation: on the unchanged
// tree the checks do not panic, so a panic means the library handed back something the check's reading of the
// statement has no place for (nil where a value or an error was promised, an index out of any promised range).
func (r *Run) Recover() {
	if p := recover(); p != nil {
		buf := make([]byte, 1<<16)
		n := runtime.Stack(buf, false)
		msg := fmt.Sprint(p)
		r.Violation("check-could-not-interpret-the-answer|"+MsgClass(msg), fmt.Sprintf("the check panicked while judging what the library returned (%s); on the unchanged tree this does not happen:\n%s", msg, head(string(buf[:n]), 1500)),
			map[string]any{"panic": msg, "case": r.curCase})
		r.Truncated("stopped: the check could not interpret an answer of the library")
		r.Finish()
	}
}

func head(s string, n int) string {
	if len(s) > n {
		return s[:n]
	}
	return s
}

// Begin announces the case the check is about to hand to the library. If the library does not come back
// within limit (a loop that never ends), the guard reports the case as a violation ("hangs|<class>") and ends
// the run with exit 1 - a check that hangs forever reports nothing. The limit is far above what any case
// needs (microseconds to milliseconds), so machine load cannot trip it; it is not a performance oracle.
func (r *Run) Begin(class, caseID string, rep any) {
	r.mu.Lock()
	r.curClass, r.curCase, r.curRep, r.curStart = class, caseID, rep, time.Now()
	start := !r.guardOn
	r.guardOn = true
	r.mu.Unlock()
	if start {
		limit := 10 * time.Minute
		if v, err := time.ParseDuration(os.Getenv("VERIF_HANG_LIMIT")); err == nil && v > 0 {
			limit = v // development aid
		}
		go r.guard(limit)
	}
}

// End: the announced case returned.
func (r *Run) End() {
	r.mu.Lock()
	r.curCase = ""
	r.mu.Unlock()
}

func (r *Run) guard(limit time.Duration) {
	for {
		time.Sleep(5 * time.Second)
		r.mu.Lock()
		stuck := r.curCase != "" && time.Since(r.curStart) > limit
		class, id, rep := r.curClass, r.curCase, r.curRep
		r.mu.Unlock()
		if !stuck {
			continue
		}
		if r.job != "" {
			// worker process: die loudly, the master attributes the death to the announced case
			fmt.Fprintf(os.Stderr, "fatal error: the library did not return from case %q within %v\n", id, limit)
			os.Exit(3)
		}
		r.Violation("hangs|"+class, fmt.Sprintf("%s: the library did not return within %v (a loop that does not end); the run stops here", id, limit), rep)
		r.Truncated("stopped at a call that never returned")
		r.Finish()
	}
}

// Outcome counts a distinct observed outcome class (vacuity guard).
func (r *Run) Outcome(class string) {
	r.mu.Lock()
	r.outcomes[class]++
	r.mu.Unlock()
}

func (r *Run) Sample(v any) {
	r.mu.Lock()
	if len(r.samples) < 8 {
		r.samples = append(r.samples, v)
	}
	r.mu.Unlock()
}

// Violation records a property violation. siteKey must be stable under
// unrelated edits; replay is what is needed to re-run the case.
func (r *Run) Violation(siteKey, what string, replay any) {
	r.mu.Lock()
	defer r.mu.Unlock()
	if r.job != "" {
		r.workerViolation(siteKey, what, replay)
		return
	}
	if r.replaySite != "" && siteKey != r.replaySite {
		return
	}
	if k, ok := r.known[siteKey]; ok {
		if r.knownHit[siteKey] == 0 {
			fmt.Printf("KNOWN-FINDING: property=%s %s [site=%s]\n", r.ID, k.What, siteKey)
		}
		r.knownHit[siteKey]++
		return
	}
	if v, ok := r.viol[siteKey]; ok {
		v.Count++
		return
	}
	h := sha1.Sum([]byte(siteKey))
	path := filepath.Join(Root(), "replay", fmt.Sprintf("%s-%s.json", r.ID, hex.EncodeToString(h[:6])))
	_ = os.MkdirAll(filepath.Dir(path), 0o755)
	b, _ := json.MarshalIndent(map[string]any{
		"property": r.ID, "site_key": siteKey, "what": what, "tier": r.Tier, "case": replay,
		"how_to_replay": fmt.Sprintf("/verif/check %s --replay %s", r.ID, path),
	}, "", " ")
	_ = os.WriteFile(path, b, 0o644)
	r.viol[siteKey] = &violation{SiteKey: siteKey, What: what, Replay: path, Count: 1}
	r.violOrder = append(r.violOrder, siteKey)
	if len(r.violOrder) <= 25 {
		fmt.Printf("VIOLATION property=%s replay=%s\n  site=%s\n  %s\n", r.ID, path, siteKey, what)
	}
}

// KnownHits: number of known-finding sites reproduced so far.
func (r *Run) KnownHits() int { r.mu.Lock(); defer r.mu.Unlock(); return len(r.knownHit) }

func (r *Run) Violations() int { r.mu.Lock(); defer r.mu.Unlock(); return len(r.viol) }

// HarnessError aborts with exit code 2: the machinery, not the property.
func HarnessError(format string, a ...any) {
	fmt.Fprintf(os.Stderr, "HARNESS-ERROR: "+format+"\n", a...)
	os.Exit(2)
}

// Finish writes the evidence file and exits with 0 or 1.
func (r *Run) Finish() {
	if r.job != "" {
		r.finishWorker(nil)
	}
	r.mu.Lock()
	cov := map[string]any{}
	for k, v := range r.extra {
		cov[k] = v
	}
	cov["evaluations"] = r.evals
	cov["distinct_nontrivial"] = len(r.nontrivial)
	cov["rule"] = r.rule
	all := append(append([]any{}, r.autoSamples...), r.samples...)
	if len(all) == 0 {
		all = []any{"(no sample recorded)"}
	}
	cov["samples"] = all
	cov["exhaustive"] = r.exhaustive
	for k, v := range r.counters {
		cov[k] = v
	}
	if len(r.outcomes) > 0 {
		cov["distinct_outcomes"] = len(r.outcomes)
		cov["outcome_counts"] = r.outcomes
	}
	kh := []string{}
	for k, n := range r.knownHit {
		kh = append(kh, fmt.Sprintf("%s x%d", k, n))
	}
	sort.Strings(kh)
	cov["known_findings_hit"] = kh
	stale := []string{}
	for k := range r.known {
		if r.knownHit[k] == 0 {
			stale = append(stale, k)
		}
	}
	sort.Strings(stale)
	if len(stale) > 0 {
		cov["known_findings_not_reproduced_this_run"] = stale
	}
	vs := []map[string]any{}
	for _, k := range r.violOrder {
		v := r.viol[k]
		vs = append(vs, map[string]any{"site_key": v.SiteKey, "what": v.What, "replay": v.Replay, "count": v.Count})
	}
	if len(vs) > 0 {
		cov["violation_sites"] = vs
	}
	ev := map[string]any{
		"property_id": r.ID, "tier": r.Tier, "seed": r.Seed, "level": r.Level,
		"coverage": cov, "assumptions": r.assume,
		"wall_s":     float64(time.Since(r.start).Milliseconds()) / 1000,
		"violations": len(r.viol),
	}
	nviol := len(r.viol)
	r.mu.Unlock()
	if r.ReplayPath == "" && os.Getenv("VERIF_NOEVIDENCE") == "" {
		b, _ := json.MarshalIndent(ev, "", " ")
		dir := filepath.Join(Root(), "evidence")
		_ = os.MkdirAll(dir, 0o755)
		if err := os.WriteFile(filepath.Join(dir, r.ID+".json"), append(b, '\n'), 0o644); err != nil {
			HarnessError("writing evidence: %v", err)
		}
	}
	fmt.Printf("%s %s: evaluations=%d distinct_nontrivial=%d violations=%d known_sites_hit=%d exhaustive=%v wall=%.1fs\n",
		r.ID, r.Tier, r.evals, len(r.nontrivial), nviol, len(r.knownHit), r.exhaustive, time.Since(r.start).Seconds())
	if r.replaySite != "" {
		fmt.Printf("replay of site %q: reproduced=%v (the whole deterministic enumeration was re-run, other sites ignored)\n", r.replaySite, nviol > 0)
	}
	if nviol > 0 {
		os.Exit(1)
	}
	os.Exit(0)
}

// LoadReplay reads the "case" member of a replay file into v.
func (r *Run) LoadReplay(v any) {
	r.replaySite = "" // the check replays the recorded case itself
	b, err := os.ReadFile(r.ReplayPath)
	if err != nil {
		HarnessError("replay: %v", err)
	}
	var w struct {
		Case json.RawMessage `json:"case"`
	}
	if err := json.Unmarshal(b, &w); err != nil {
		HarnessError("replay: %v", err)
	}
	if err := json.Unmarshal(w.Case, v); err != nil {
		HarnessError("replay case: %v", err)
	}
}

// Try runs f and converts a panic into (panicked=true, message, innermost repo frame).
func Try(f func()) (panicked bool, msg string, frame string) {
	defer func() {
		if p := recover(); p != nil {
			panicked = true
			msg = fmt.Sprint(p)
			frame = RepoFrame(3)
		}
	}()
	f()
	return
}
