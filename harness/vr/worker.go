package vr

import (
	"encoding/hex"
	"encoding/json"
	"fmt"
	"os"
)

// Worker mode: a check binary started with --job <json> explores one subtree
// and prints its partial results as one JSON document; the master merges them.

type wViol struct {
	SiteKey string `json:"k"`
	What    string `json:"w"`
	Replay  any    `json:"r"`
	Count   int    `json:"n"`
}

type export struct {
	Evals      int64            `json:"evals"`
	Nontrivial []string         `json:"nt"`
	Outcomes   map[string]int   `json:"out"`
	Viol       []wViol          `json:"viol"`
	Counters   map[string]int64 `json:"ctr"`
	Exhaustive bool             `json:"exh"`
	Truncated  string           `json:"trunc,omitempty"`
	Extra      map[string]any   `json:"extra,omitempty"`
}

// Job returns the raw --job argument ("" in master mode).
func (r *Run) Job() string { return r.job }

func (r *Run) IsWorker() bool { return r.job != "" }

// Count adds to a named counter that is summed across workers.
func (r *Run) Count(name string, n int64) {
	r.mu.Lock()
	if r.counters == nil {
		r.counters = map[string]int64{}
	}
	r.counters[name] += n
	r.mu.Unlock()
}

func (r *Run) Counter(name string) int64 {
	r.mu.Lock()
	defer r.mu.Unlock()
	return r.counters[name]
}

func (r *Run) finishWorker(extra map[string]any) {
	r.mu.Lock()
	e := export{Evals: r.evals, Outcomes: r.outcomes, Counters: r.counters, Exhaustive: r.exhaustive, Extra: extra}
	if t, ok := r.extra["truncated"].(string); ok {
		e.Truncated = t
	}
	for k := range r.nontrivial {
		e.Nontrivial = append(e.Nontrivial, hex.EncodeToString(k[:]))
	}
	for _, k := range r.wviolOrder {
		e.Viol = append(e.Viol, *r.wviol[k])
	}
	r.mu.Unlock()
	b, err := json.Marshal(e)
	if err != nil {
		HarnessError("worker export: %v", err)
	}
	os.Stdout.Write(append(b, '\n'))
	os.Exit(0)
}

// FinishWorker ends a worker process, passing extra data to the master.
func (r *Run) FinishWorker(extra map[string]any) { r.finishWorker(extra) }

// Merge folds a worker's export into the master run and returns its extra data.
func (r *Run) Merge(data []byte) map[string]any {
	var e export
	if err := json.Unmarshal(data, &e); err != nil {
		HarnessError("merging worker output: %v (%.200s)", err, data)
	}
	r.mu.Lock()
	r.evals += e.Evals
	for _, h := range e.Nontrivial {
		var k [12]byte
		b, _ := hex.DecodeString(h)
		copy(k[:], b)
		r.nontrivial[k] = struct{}{}
	}
	for k, n := range e.Outcomes {
		r.outcomes[k] += n
	}
	if r.counters == nil {
		r.counters = map[string]int64{}
	}
	for k, n := range e.Counters {
		r.counters[k] += n
	}
	if !e.Exhaustive {
		r.exhaustive = false
		if e.Truncated != "" {
			r.extra["truncated"] = e.Truncated
		}
	}
	r.mu.Unlock()
	for _, v := range e.Viol {
		for i := 0; i < max(v.Count, 1); i++ {
			r.Violation(v.SiteKey, v.What, v.Replay)
			if i >= 1 {
				break
			}
		}
	}
	return e.Extra
}

func (r *Run) workerViolation(siteKey, what string, replay any) {
	if v, ok := r.wviol[siteKey]; ok {
		v.Count++
		return
	}
	if r.wviol == nil {
		r.wviol = map[string]*wViol{}
	}
	r.wviol[siteKey] = &wViol{SiteKey: siteKey, What: what, Replay: replay, Count: 1}
	r.wviolOrder = append(r.wviolOrder, siteKey)
	if len(r.wviolOrder) > 5000 {
		fmt.Fprintln(os.Stderr, "worker: too many distinct violation sites")
	}
}
