// Package enum is engine E1: the deviation-bounded product enumerator.
package enum

// All calls f with every assignment of the dimensions (sizes[i] alternatives
// each, alternative 0 = default) that has at most k dimensions off default.
// k < 0 means the full product. The slice passed to f is reused.
func All(sizes []int, k int, f func(idx []int)) int {
	idx := make([]int, len(sizes))
	if k < 0 || k > len(sizes) {
		k = len(sizes)
	}
	n := 0
	var rec func(start, left int)
	rec = func(start, left int) {
		f(idx)
		n++
		if left == 0 {
			return
		}
		for d := start; d < len(sizes); d++ {
			for a := 1; a < sizes[d]; a++ {
				idx[d] = a
				rec(d+1, left-1)
			}
			idx[d] = 0
		}
	}
	rec(0, k)
	return n
}
