#!/bin/bash
# Runs the repository's own test suite exactly as shipped (no overlay, no tags).
export GOPROXY=off GOSUMDB=off GOTOOLCHAIN=local
rc=0
for m in . telegram/deeplinks internal/cmd/tlgen; do
  (cd /repo/$m && go test -vet=off -count=1 -timeout 25m "$@" ./...) || rc=1
done
exit $rc
